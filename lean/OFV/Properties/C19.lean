/-
C19 — property theorems (LCU tables and cost arithmetic).  Helper lemmas live in OFV/Proofs/C19*.lean.
Every theorem is about the functions the driver executes (OFV.Model.C19 / C19Cost) and the executable
Spec predicates the oracle evaluates on the implementation's outputs (OFV.Spec.C19).
-/
import OFV.Proofs.C19Roulette
import OFV.Proofs.C19Discretize
import OFV.Proofs.C19LCU
import OFV.Proofs.C19Qrom
import OFV.Proofs.C19QR
import OFV.Proofs.C19Cost
import OFV.Proofs.C19LambdaFinal
import OFV.Proofs.C19LambdaOracle
import OFV.Proofs.C19MolId
import OFV.Proofs.C19MolOracle
import OFV.Proofs.C19Phys
import OFV.Proofs.C19Exchange
import OFV.Proofs.C19OneNormId
import OFV.Proofs.C19Exact0
import OFV.Proofs.C19ThcPos
import OFV.Proofs.C19OracleSplit
import OFV.Proofs.C19Mono

namespace OFV.C19
open OFV.Model.C19 OFV.Spec.C19

/-- `_preprocess_for_efficient_roulette_selection`, every number of items: for non-negative integer
weights whose sum is a multiple of their number the donor search never runs past the end (no
IndexError), every alternate is a valid index, `0 ≤ keep ≤ target`, and the two-stage distribution
`keep_k + Σ_{i : alt_i = k} (target − keep_i)` equals the input weight of every `k` — exact integer
arithmetic (invariants of the two scanning passes with the moving donor pointer). -/
theorem roulette_exact (ws : List Int) (hne : ws ≠ []) (hpos : ∀ w ∈ ws, 0 ≤ w)
    (hmul : isum ws = (ws.length : Int) * (isum ws / (ws.length : Int))) :
    ∃ alt keep, roulette ws = .ok (alt, keep) ∧ aliasOk ws alt keep = true :=
  OFV.Proofs.C19.roulette_ok ws hne hpos hmul

example : ∃ alt keep, roulette [5, 0, 1, 6] = .ok (alt, keep) ∧ aliasOk [5, 0, 1, 6] alt keep = true :=
  roulette_exact _ (by decide) (by decide) (by decide)

/-- `_discretize_probability_distribution` over the rationals, every non-negative list with positive
sum and every `epsilon > 0`: the numerators are non-negative, sum to the denominator `n · 2^mu`, and
each `numer_i / denom` is within `epsilon` of the normalised probability (round-half-up of the
cumulative sums; `mu` is large enough that `epsilon · n · 2^mu ≥ 1`). -/
theorem discretize_spec (probs : List Rat) (eps : Rat) (hne : probs ≠ []) (hpos : ∀ p ∈ probs, 0 ≤ p)
    (htot : 0 < probs.sum) (heps : 0 < eps) :
    ∃ numers denom mu, discretize probs eps = some (numers, denom, mu) ∧
      discretizeOk probs eps numers denom mu = true :=
  OFV.Proofs.C19D.discretize_ok probs eps hne hpos htot heps

/-- `sub_bit_precision = max(0, ceil(-log2(epsilon * n)))` is exactly the least `mu` with
`epsilon * n * 2^mu ≥ 1` (enough for the epsilon bound, and one bit less is not). -/
theorem sub_bit_precision_spec (eps : Rat) (n : Nat) (h : 0 < eps * n) :
    1 ≤ eps * n * (2 ^ subBitPrecision eps n : Nat) ∧
    (subBitPrecision eps n = 0 ∨ eps * n * (2 ^ (subBitPrecision eps n - 1) : Nat) < 1) :=
  ⟨OFV.Proofs.C19D.subBitPrecision_spec eps n h, OFV.Proofs.C19D.subBitPrecision_minimal eps n h⟩

/-- `preprocess_lcu_coefficients_for_reversible_sampling`: the call succeeds and the alias table it
returns has valid alternates, `0 ≤ keep ≤ 2^mu`, and a two-stage sampling probability within `epsilon`
of `coeff_k / Σ coeff` for every `k` (the alias table reproduces the discretised distribution exactly). -/
theorem lcu_preprocess_spec (coeffs : List Rat) (eps : Rat) (hne : coeffs ≠ []) (hpos : ∀ p ∈ coeffs, 0 ≤ p)
    (htot : 0 < coeffs.sum) (heps : 0 < eps) :
    ∃ alt keep mu, preprocessLCU coeffs eps = .ok (alt, keep, mu) ∧ lcuOk coeffs eps alt keep mu = true :=
  OFV.Proofs.C19L.preprocess_ok coeffs eps hne hpos htot heps

/-- `QR(L, M)`, all `1 ≤ M ≤ L`: the returned exponent minimises `L/2^k + M(2^k − 1)` over **all**
`k ≥ 0` (not only over the two candidates the code looks at), and the returned value is the ceiling
of that minimum. -/
theorem qr_minimiser (L M : Nat) (hM : 0 < M) (hLM : M ≤ L) :
    ∃ k v, qr L M = some (k, v) ∧ (∀ j, qrValue L M k ≤ qrValue L M j) ∧ (v : Int) = ⌈qrValue L M k⌉ :=
  OFV.Proofs.C19QR.qr_minimiser L M hM hLM

/-- `QI(L)`, all `L ≥ 1`: minimiser of `L/2^k + 2^k` over all `k ≥ 0` and ceiling of the minimum. -/
theorem qi_minimiser (L : Nat) (hL : 0 < L) :
    ∃ k v, qi L = some (k, v) ∧ (∀ j, qiValue L k ≤ qiValue L j) ∧ (v : Int) = ⌈qiValue L k⌉ :=
  OFV.Proofs.C19QR.qi_minimiser L hL

/-- `QR2` / `QI2`: the returned `(2^k1, 2^k2, value)` is attained on the searched grid
`1 ≤ k1, k2 ≤ 16` and is minimal there (for any cost function of `(k1, k2)`). -/
theorem qr2_minimiser (L1 L2 M : Nat) :
    grid2Ok (qr2Value L1 L2 M) (qr2 L1 L2 M).1 (qr2 L1 L2 M).2.1 (qr2 L1 L2 M).2.2 = true := by
  have hv : (fun k1 k2 => Model.C19.cdiv L1 (2 ^ k1) * Model.C19.cdiv L2 (2 ^ k2) + M * (2 ^ (k1 + k2) - 1)) =
      qr2Value L1 L2 M := by funext k1 k2; rfl
  simp only [qr2]
  rw [hv]
  exact OFV.Proofs.C19Q.scan2_ok _

theorem qi2_minimiser (L1 L2 : Nat) :
    grid2Ok (qi2Value L1 L2) (qi2 L1 L2).1 (qi2 L1 L2).2.1 (qi2 L1 L2).2.2 = true := by
  have hv : (fun k1 k2 => Model.C19.cdiv L1 (2 ^ k1) * Model.C19.cdiv L2 (2 ^ k2) + 2 ^ (k1 + k2)) =
      qi2Value L1 L2 := by funext k1 k2; rfl
  simp only [qi2]
  rw [hv]
  exact OFV.Proofs.C19Q.scan2_ok _

/-- `power_two(m)` is the 2-adic valuation of `m` (and `0` for `m = 0`). -/
theorem power_two_spec (m : Nat) : powerTwoOk m (powerTwo m) = true :=
  OFV.Proofs.C19Q.powerTwo_ok m

/-- `cost_sparse`: total Toffoli count = per-step cost × number of iterations. -/
theorem sparse_total_is_step_times_iters (n : Nat) (lam : Rat) (d : Nat) (dE : Rat) (chi br : Nat) (c : Costs)
    (h : sparseCost n lam d dE chi br = some c) :
    ∃ it, iters lam dE = some it ∧ totalOk c.step c.total it = true := by
  obtain ⟨it, h1, _, h3⟩ := OFV.Proofs.C19C.sparse_total n lam d dE chi br c h
  exact ⟨it, h1, by simp [totalOk, h3]⟩

/-- `compute_cost` (THC) with an even number of spin orbitals: the per-step cost is an integer and
total Toffoli count = per-step cost × number of iterations. -/
theorem thc_total_is_step_times_iters (n : Nat) (lam dE : Rat) (chi beta M br : Nat) (c : Costs)
    (hn : n % 2 = 0) (h : thcCost n lam dE chi beta M br = some c) :
    ∃ it, iters lam dE = some it ∧ totalOk c.step c.total it = true := by
  obtain ⟨it, h1, h2⟩ := OFV.Proofs.C19C.thc_total n lam dE chi beta M br c hn h
  exact ⟨it, h1, by simp [totalOk, h2]⟩

/-- the iteration count `⌈π·lam / (2 dE)⌉` (hence every total with a non-negative per-step cost) is
monotone in `lam` and in `1/dE`. -/
theorem iters_monotone (lam lam' dE dE' : Rat) (a b : Nat) (ha : iters lam dE = some a)
    (hb : iters lam' dE' = some b) (hl : lam ≤ lam') (hd : dE' ≤ dE) : a ≤ b := by
  have hp := OFV.Proofs.C19C.iters_pos ha
  have hp' := OFV.Proofs.C19C.iters_pos hb
  -- go through the intermediate point (lam', dE)
  have h1 := OFV.Proofs.C19C.iters_val ha
  have h2 := OFV.Proofs.C19C.iters_val hb
  have : (a : Int) ≤ b := by
    rw [h1, h2]; apply Int.ceil_mono
    have hpi : (0 : Rat) < piLo := by unfold piLo; norm_num
    calc piLo * lam / (dE * 2) ≤ piLo * lam' / (dE * 2) := by
          apply div_le_div_of_nonneg_right _ (by have := hp.2; positivity)
          exact mul_le_mul_of_nonneg_left hl (le_of_lt hpi)
      _ ≤ piLo * lam' / (dE' * 2) := by
          apply div_le_div_of_nonneg_left (by have := hp'.1; positivity) (by have := hp'.2; positivity)
          linarith
  exact_mod_cast this

example : iters 2 1 = some 4 := OFV.Proofs.C19C.iters_two_one

example : (4 : Nat) ≤ 4 := iters_monotone 2 2 1 1 4 4 OFV.Proofs.C19C.iters_two_one OFV.Proofs.C19C.iters_two_one (le_refl _) (le_refl _)

/-! ### cost functions and QROM helpers, beyond the statements above -/

/-- `cost_sparse`: the per-step Toffoli cost is positive for ALL parameters and does not depend on `lam`, `dE`;
hence the total is monotone in `lam` and in `1/dE` (no side condition). -/
theorem sparse_total_monotone (n d chi br : Nat) (lam lam' dE dE' : Rat) (c c' : Costs)
    (h : sparseCost n lam d dE chi br = some c) (h' : sparseCost n lam' d dE' chi br = some c')
    (hl : lam ≤ lam') (hd : dE' ≤ dE) : 0 < c.step ∧ c.step = c'.step ∧ c.total ≤ c'.total := by
  obtain ⟨h1, h2⟩ := OFV.Proofs.C19M.sparse_total_mono n d chi br lam lam' dE dE' c c' h h' hl hd
  obtain ⟨_, _, hs, _⟩ := OFV.Proofs.C19C.sparse_total n lam d dE chi br c h
  exact ⟨by rw [hs]; exact OFV.Proofs.C19M.sparseStepCost_pos n d chi br, h1, h2⟩

/-- `compute_cost` (THC), even number of spin orbitals: the per-step cost does not depend on `lam`, `dE`, and the
total is monotone in `lam` and `1/dE` whenever that per-step cost is non-negative. -/
theorem thc_total_monotone (n chi beta M br : Nat) (lam lam' dE dE' : Rat) (c c' : Costs) (hn : n % 2 = 0)
    (h : thcCost n lam dE chi beta M br = some c) (h' : thcCost n lam' dE' chi beta M br = some c')
    (hl : lam ≤ lam') (hd : dE' ≤ dE) : c.step = c'.step ∧ (0 ≤ c.step → c.total ≤ c'.total) :=
  OFV.Proofs.C19M.thc_total_mono n chi beta M br lam lam' dE dE' c c' hn h h' hl hd

/-- `QR2` beyond the searched grid: for table sizes `L1, L2 ≤ 2^16` the returned value is minimal over ALL
exponents `k1, k2 ≥ 1` (larger blocks only add to the `M (2^(k1+k2) - 1)` term once `⌈L/2^k⌉` has reached 1). -/
theorem qr2_global_minimiser (L1 L2 M : Nat) (h1 : L1 ≤ 2 ^ 16) (h2 : L2 ≤ 2 ^ 16) (j1 j2 : Nat) (hj1 : 1 ≤ j1) (hj2 : 1 ≤ j2) :
    (qr2 L1 L2 M).2.2 ≤ qr2Value L1 L2 M j1 j2 := by
  have hg := OFV.Proofs.C19M.grid_all _ _ _ _ (qr2_minimiser L1 L2 M) (min j1 16) (min j2 16)
    ⟨by omega, by omega⟩ ⟨by omega, by omega⟩
  refine le_trans hg ?_
  unfold qr2Value
  exact OFV.Proofs.C19M.clamp_le L1 L2 (fun t => M * (2 ^ t - 1))
    (fun a b hab => Nat.mul_le_mul_left _ (Nat.sub_le_sub_right (Nat.pow_le_pow_right (by norm_num) hab) 1)) h1 h2 j1 j2

/-- `QI2` beyond the searched grid, same statement. -/
theorem qi2_global_minimiser (L1 L2 : Nat) (h1 : L1 ≤ 2 ^ 16) (h2 : L2 ≤ 2 ^ 16) (j1 j2 : Nat) (hj1 : 1 ≤ j1) (hj2 : 1 ≤ j2) :
    (qi2 L1 L2).2.2 ≤ qi2Value L1 L2 j1 j2 := by
  have hg := OFV.Proofs.C19M.grid_all _ _ _ _ (qi2_minimiser L1 L2) (min j1 16) (min j2 16)
    ⟨by omega, by omega⟩ ⟨by omega, by omega⟩
  refine le_trans hg ?_
  unfold qi2Value
  exact OFV.Proofs.C19M.clamp_le L1 L2 (fun t => 2 ^ t)
    (fun a b hab => Nat.pow_le_pow_right (by norm_num) hab) h1 h2 j1 j2

example : (qr2 100 37 7).2.2 ≤ qr2Value 100 37 7 20 3 :=
  qr2_global_minimiser 100 37 7 (by norm_num) (by norm_num) 20 3 (by norm_num) (by norm_num)

/-! ### `cost_estimator` (surface-code physical costing): the deterministic part -/

/-- **Selection loop of `cost_estimator`**: given the candidate layouts `(physical qubits, rounds)` in loop order and
which of them pass the failure-probability filter, the loop returns `None` iff none passes; otherwise a feasible
candidate whose `qubits × rounds` is minimal among the feasible ones and strictly smaller than that of every earlier
feasible candidate (first strict minimum).  The candidate table itself (`Model.C19.candidates`: factory dimensions,
footprints, rounds, storage area) is integer / rational arithmetic compared exactly with the implementation on every
candidate; only the failure probabilities (irrational powers) stay outside the Model. -/
theorem cost_estimator_select_spec (cands : List (Nat × Nat)) (feasible : List Bool) :
    selectOk cands feasible (Model.C19.selectBest cands feasible) = true :=
  OFV.Proofs.C19Ph.selectBest_ok cands feasible

/-- `compute_cost` (THC) with an even number of spin orbitals, at least one THC factor (`M ≥ 1`) and `beta ≥ 2`: the
per-step Toffoli cost is positive and independent of `lam`, `dE`, hence the total is monotone in `lam` and `1/dE` —
`thc_total_monotone` without its side condition on the sign of the per-step cost. -/
theorem thc_total_monotone_pos (n chi beta M br : Nat) (lam lam' dE dE' : Rat) (c c' : Costs) (hn : n % 2 = 0)
    (hM : 1 ≤ M) (hb : 2 ≤ beta)
    (h : thcCost n lam dE chi beta M br = some c) (h' : thcCost n lam' dE' chi beta M br = some c')
    (hl : lam ≤ lam') (hd : dE' ≤ dE) : 0 < c.step ∧ c.step = c'.step ∧ c.total ≤ c'.total := by
  have hp := OFV.Proofs.C19M.thc_step_pos n chi beta M br lam dE c hn hM hb h
  obtain ⟨h1, h2⟩ := thc_total_monotone n chi beta M br lam lam' dE dE' c c' hn h h' hl hd
  exact ⟨hp, h1, h2 (le_of_lt hp)⟩

/-! ### `lambda_norm` and the Jordan-Wigner image -/

/-- **`lambda_norm` is the 1-norm of the non-identity Jordan-Wigner coefficients** — every size `n`, every real
symmetric `T = one_body` and `V = two_body` (passed to the Model of `jordan_wigner(DiagonalCoulombHamiltonian)`,
`Model.C04.jwDCH`, as the row-major tensors `one`, `two`), every (complex) constant.  On every exact run of the
transform (`jwDCHOk`: no `+=` discards a non-zero value, evaluated by the driver on the generated inputs):

* the Model of `lambda_norm` (the double loop with `z_vector`) equals the sum of `|c|` over the non-identity Pauli
  strings of the image (`Z_j`, `Z_a Z_b`, `X_a Z…Z X_b`, `Y_a Z…Z Y_b`; all other strings have coefficient 0);
* all those coefficients are real;
* the image acts on every basis state like the Spec operator `const + Σ T_pq a†_p a_q + Σ V_pq n_p n_q`
  (`C04.jw_dch_sound`, restated here for the same hypotheses).

That the coefficient list of the image is THE Pauli decomposition in the sense of the oracle `Spec.C19.jwOneNorm` is
`pauli_decomposition_unique` / `lambda_norm_oracle` below. -/
theorem lambda_norm_spec (tol : Rat) (n : Nat) (const : GQ) (one two : List GQ) (T V : List (List Rat))
    (hn : T.length = n)
    (hT : ∀ p q, p < n → q < n → Model.C04.get1 n one p q = Model.C04.rl (mat T p q))
    (hV : ∀ p q, p < n → q < n → Model.C04.get1 n two p q = Model.C04.rl (mat V p q))
    (symT : ∀ p q, p < n → q < n → mat T q p = mat T p q)
    (symV : ∀ p q, p < n → q < n → mat V q p = mat V p q)
    (hok : Model.C04.jwDCHOk tol n const one two = true) :
    lambdaNorm T V = OFV.C19Jw.pauliNormNonId (Model.C04.jwDCH tol n const one two)
    ∧ (∀ tc ∈ Model.C04.jwDCH tol n const one two, tc.1 ≠ [] → tc.2.im = 0)
    ∧ (∀ m x : Nat, Spec.GV.coeff (Spec.applyOp .qubit (Model.C04.jwDCH tol n const one two) [m]) [x]
        = Spec.GV.coeff (Spec.applyOp .fermion (Spec.C04.dchOp n const one two) [m]) [x]) := by
  refine ⟨OFV.C19Jw.lambdaNorm_eq_pauliNorm tol n const one two T V hn hT hV symT symV hok,
    fun tc htc hne => OFV.C19Jw.jwDCH_real tol n const one two T V hT hV hok tc htc hne, fun m x => ?_⟩
  refine OFV.Sem.jwDCH_sound tol n const one two ?_ ?_ hok m x
  · intro p q hp hq
    rw [hT q p hq hp, hT p q hp hq, symT p q hp hq]; rfl
  · intro p q hp hq
    rw [hV q p hq hp, hV p q hp hq, symV p q hp hq]

/-- the hypotheses of `lambda_norm_spec` hold for a concrete 3-orbital Hamiltonian and both sides are `13/4` -/
example :
    let T : List (List Rat) := [[1, mkRat 1 2, 0], [mkRat 1 2, -2, -1], [0, -1, 3]]
    let V : List (List Rat) := [[0, mkRat 1 2, -1], [mkRat 1 2, 0, 0], [-1, 0, 0]]
    let one : List GQ := [⟨1, 0⟩, ⟨mkRat 1 2, 0⟩, 0, ⟨mkRat 1 2, 0⟩, ⟨-2, 0⟩, ⟨-1, 0⟩, 0, ⟨-1, 0⟩, ⟨3, 0⟩]
    let two : List GQ := [0, ⟨mkRat 1 2, 0⟩, ⟨-1, 0⟩, ⟨mkRat 1 2, 0⟩, 0, 0, ⟨-1, 0⟩, 0, 0]
    Model.C04.jwDCHOk Generated.eqTolerance 3 ⟨mkRat 3 4, 0⟩ one two = true
      ∧ lambdaNorm T V = OFV.C19Jw.pauliNormNonId (Model.C04.jwDCH Generated.eqTolerance 3 ⟨mkRat 3 4, 0⟩ one two) := by
  decide +kernel

/-- **Uniqueness of the Pauli decomposition, in the form the Spec oracle evaluates it.**  Let `A` be any fermionic
operator and `R` a qubit operator in Pauli form — pairwise different keys, every key a canonical string on `n` qubits
(strictly increasing qubit indices `< n`, letters X / Y / Z), real coefficients on the non-identity strings — that acts
on every basis state like `A`.  Then `jwOneNorm n A false` (which enumerates all `4^n` mask pairs `(x, z)` and takes the
trace of `P_{x,z} A` over all `2^n` Fock states, using only the Spec ladder action) returns exactly the sum of `|c|` over
the non-identity strings of `R`.  Proof: trace orthogonality of canonical strings (`Σ_s (-1)^{|w ∧ s|} = 0` for `w ≠ 0` by
a sign-reversing involution), the mask pair determines the string, and the action of a canonical string is
`i^{#Y} (-1)^{|zmask ∧ s|} |s ⊕ xmask⟩`. -/
theorem pauli_decomposition_unique (n : Nat) (A R : Model.Op) (wf : Dict.WF R)
    (hcanon : ∀ tc ∈ R, OFV.C19P.Canon n tc.1) (hreal : ∀ tc ∈ R, tc.1 ≠ [] → tc.2.im = 0)
    (heq : ∀ m u : Nat, Spec.GV.coeff (Spec.applyOp .qubit R [m]) [u] = Spec.GV.coeff (Spec.applyOp .fermion A [m]) [u]) :
    jwOneNorm n A false = some (pauliListNorm R false) :=
  OFV.C19P.jwOneNorm_pauli n A R wf hcanon hreal heq

/-- **`lambda_norm` is the value of the Spec oracle** for every `n` and every real symmetric DiagonalCoulombHamiltonian:
the Model of `lambda_norm` equals `jwOneNorm` (1-norm of the non-identity coefficients of the Pauli decomposition,
computed from the Spec ladder action on all Fock states) of `const + Σ T_pq a†_p a_q + Σ V_pq n_p n_q`, on every exact
run of the Model of the Jordan-Wigner transform (hypothesis `jwDCHOk`, evaluated by the driver on every generated
Hamiltonian). -/
theorem lambda_norm_oracle (tol : Rat) (n : Nat) (const : GQ) (one two : List GQ) (T V : List (List Rat))
    (hn : T.length = n)
    (hT : ∀ p q, p < n → q < n → Model.C04.get1 n one p q = Model.C04.rl (mat T p q))
    (hV : ∀ p q, p < n → q < n → Model.C04.get1 n two p q = Model.C04.rl (mat V p q))
    (symT : ∀ p q, p < n → q < n → mat T q p = mat T p q)
    (symV : ∀ p q, p < n → q < n → mat V q p = mat V p q)
    (hok : Model.C04.jwDCHOk tol n const one two = true) :
    jwOneNorm n (Spec.C04.dchOp n const one two) false = some (lambdaNorm T V) :=
  OFV.C19Jw.lambdaNorm_eq_oracle tol n const one two T V hn hT hV symT symV hok

/-! ### `get_one_norm_int`: the identity coefficient -/

/-- **What `get_one_norm_int_woconst` leaves out is exactly the identity coefficient of the Pauli decomposition.**
For every number of spatial orbitals and ALL real integrals (no symmetry needed): the trace of the molecular
Hamiltonian `Spec.C19.molOp` (`constant + Σ h_pq a†_{pσ} a_{qσ} + ½ Σ g_pqrs a†_{pσ} a†_{qτ} a_{rτ} a_{sσ}`), computed from
the Spec ladder action over all `4^n` Fock states as the oracle does (`pauliTrace … 0 0`), is `4^n · c` with
`c = constant + Σ_p h_pp + Σ_pq (½ g_pqqp − ¼ g_pqpq)`, and the Model of `get_one_norm_int` is `|c|` plus the Model of
`get_one_norm_int_woconst`.  (The equality of the remaining part with the non-identity 1-norm is the open statement
`one_norm_spec`.) -/
theorem one_norm_identity_coefficient (const : Rat) (h : List (List Rat)) (g : List (List (List (List Rat)))) :
    ∃ c : Rat,
      pauliTrace (2 * h.length) ((List.range (2 ^ (2 * h.length))).map (Spec.applyF (molOp h.length const h g))) 0 0
        = ((2 ^ (2 * h.length) : Nat) : GQ) * (⟨c, 0⟩ : GQ)
      ∧ oneNorm const h g = Model.C19.rabs c + oneNormWoConst h g :=
  ⟨OFV.C19P.htildeF h.length const h g, OFV.C19P.mol_trace h.length const h g, OFV.C19P.oneNorm_split const h g⟩

/-- **`one_norm_spec`, restricted to Coulomb-type ("density-density") two-body integrals** — every number `n` of
spatial orbitals, every real symmetric `h`, every `g` with `g_pqrs = 0` unless `s = p` and `r = q` and
`g_pqqp = g_qppq` (this class contains the one-body-only case `g = 0`, and for `n = 1` every `g`): the Model of
`get_one_norm_int_woconst` equals the Spec oracle `jwOneNorm` — the 1-norm of the non-identity coefficients of the
Pauli decomposition, computed from the Spec ladder action on all `4^n` Fock states — of the molecular Hamiltonian
`molOp n const h g`.  Proof: for such integrals `molOp` has the matrix elements of the spin-orbital
DiagonalCoulombHamiltonian with `T = h ⊗ 1`, `V[(pσ),(qτ)] = ½ g_pqqp`, to which `lambda_norm_oracle` /
`pauli_decomposition_unique` apply, and `lambda_norm` of these matrices and `get_one_norm_int_woconst` reduce to the
same normal form.  Hypothesis: the exact-run flag of the Model Jordan-Wigner transform on these matrices (evaluated by
the driver, `c19.spec.mol_coulomb`).
MISSING for the full `one_norm_spec`: exchange-type integrals `g_pqpq` and general three- / four-index integrals (the
`X Z…Z X` strings with an extra or missing `Z` and the four-letter strings of `jordan_wigner_two_body`). -/
theorem one_norm_spec_partial (tol : Rat) (n : Nat) (const : Rat) (h : List (List Rat))
    (g : List (List (List (List Rat)))) (hn : h.length = n)
    (hsupp : ∀ p q r s, ¬ (s = p ∧ r = q) → m4 g p q r s = 0)
    (symH : ∀ p q, p < n → q < n → m2 h q p = m2 h p q)
    (symJ : ∀ p q, p < n → q < n → m4 g q p p q = m4 g p q q p)
    (hok : Model.C04.jwDCHOk tol (2 * n) (⟨const, 0⟩ : GQ) (flatReal (2 * n) (spinOne n h))
      (flatReal (2 * n) (spinCoulomb n g)) = true) :
    jwOneNorm (2 * n) (molOp n const h g) false = some (oneNormWoConst h g) :=
  OFV.C19Jw.oneNormWoConst_eq_oracle tol n const h g hn hsupp symH symJ hok

/-- **`one_norm_spec`, exchange class — the four-distinct-index step (partial).**  With the eight-fold symmetry an
exchange integral `K = g_pqpq = g_ppqq` (`p ≠ q`) contributes, besides density-density terms, the opposite-spin operator
`K (a†_{p↑} a†_{q↓} a_{p↓} a_{q↑} + a†_{p↑} a†_{p↓} a_{q↓} a_{q↑} + h.c.)` (spin flip + pair hopping) on the four spin
orbitals `a = 2p, a + 1, c = 2q, c + 1`.  For every such pair and every real `K`: this operator acts on every Fock state
like `K/4 (X Y Y X − X X Y Y − Y Y X X + Y X X Y)` on these four qubits (the other four `X/Y` words of
`jordan_wigner_two_body` cancel between the two terms), and the Spec oracle `jwOneNorm` of it is `|K|`.
MISSING for the exchange class of `one_norm_spec`: adding these words for all orbital pairs to the image of the
density-density part (same-spin exchange changes `V` to `½ (J − K)`), showing the keys stay pairwise different, and
reducing `get_one_norm_int_woconst` with exchange entries to the same normal form; general three-index integrals
additionally need the `X Z…Z X` strings with an extra / missing `Z`. -/
theorem one_norm_exchange_pair_partial (a c : Nat) (h : a + 1 < c) (K : Rat) :
    (∀ m u : Nat, Spec.GV.coeff (Spec.applyOp .qubit (OFV.C19P.exchangePauli a c K) [m]) [u]
        = Spec.GV.coeff (Spec.applyOp .fermion (OFV.C19P.exchangeFermi a c K) [m]) [u])
    ∧ jwOneNorm (c + 2) (OFV.C19P.exchangeFermi a c K) false = some (Spec.C19.rabs K) :=
  ⟨fun m u => OFV.C19P.exchange_pair_den a c h K m u, OFV.C19P.exchange_pair_norm a c h K⟩

/-- **`get_one_norm_int` (identity included) is the value of the Spec oracle**, same class as
`one_norm_spec_partial` (every `n`, real symmetric `h`, Coulomb-type `g`): the Model of `get_one_norm_int` equals
`jwOneNorm (2n) (molOp n const h g) true`, the 1-norm of ALL coefficients of the Pauli decomposition.  The oracle with and
without the identity differ exactly by `|Tr H| / 4^n = |htilde|` (`one_norm_identity_coefficient`); all traces the oracle
inspects are real.  Missing for the full statement: the same classes of integrals as for `one_norm_spec_partial`. -/
theorem one_norm_int_spec_partial (tol : Rat) (n : Nat) (const : Rat) (h : List (List Rat))
    (g : List (List (List (List Rat)))) (hn : h.length = n)
    (hsupp : ∀ p q r s, ¬ (s = p ∧ r = q) → m4 g p q r s = 0)
    (symH : ∀ p q, p < n → q < n → m2 h q p = m2 h p q)
    (symJ : ∀ p q, p < n → q < n → m4 g q p p q = m4 g p q q p)
    (hok : Model.C04.jwDCHOk tol (2 * n) (⟨const, 0⟩ : GQ) (flatReal (2 * n) (spinOne n h))
      (flatReal (2 * n) (spinCoulomb n g)) = true) :
    jwOneNorm (2 * n) (molOp n const h g) true = some (oneNorm const h g) :=
  OFV.C19Jw.oneNorm_eq_oracle tol n const h g hn hsupp symH symJ hok

/-- `lambda_norm_spec` in the form the driver evaluates (`c19.spec.dch_pauli_norm`): the matrices are flattened by
`Spec.C19.flatReal`, the threshold is the extracted `EQ_TOLERANCE`; the driver reports `jwDCHOk` and the 1-norm
`pauliListNorm` of the Model's Jordan-Wigner image for every generated real symmetric Hamiltonian, and the harness
compares the latter with the implementation's `lambda_norm`. -/
theorem lambda_norm_spec_flat (const : GQ) (T V : List (List Rat))
    (symT : ∀ p q, p < T.length → q < T.length → mat T q p = mat T p q)
    (symV : ∀ p q, p < T.length → q < T.length → mat V q p = mat V p q)
    (hok : Model.C04.jwDCHOk Generated.eqTolerance T.length const (flatReal T.length T) (flatReal T.length V) = true) :
    lambdaNorm T V
      = pauliListNorm (Model.C04.jwDCH Generated.eqTolerance T.length const (flatReal T.length T) (flatReal T.length V)) false := by
  rw [← OFV.C19Jw.pauliNormNonId_eq]
  exact (lambda_norm_spec Generated.eqTolerance T.length const _ _ T V rfl
    (fun p q hp hq => OFV.C19Jw.get1_flatReal T.length T p q hp hq) (fun p q hp hq => OFV.C19Jw.get1_flatReal T.length V p q hp hq)
    symT symV hok).1

/-! ### the oracle statements without the exact-run hypothesis

The statements below do not mention the deletion threshold of `+=`: the Model image of the Jordan-Wigner transform is
only the witness of a Pauli form in the proofs, and with threshold `0` every `+=` is exact (`jwDCHOk 0 … = true`), so
the hypothesis `jwDCHOk` of `lambda_norm_oracle`, `one_norm_spec_partial`, `one_norm_int_spec_partial` disappears. -/

/-- **`lambda_norm` = Spec oracle, ALL real symmetric inputs, no side condition**: for every list of rows `T`, `V`
with `T[q][p] = T[p][q]`, `V[q][p] = V[p][q]` (indices below `len T`; rows of any length, missing entries read as 0) and
every constant, the Model of `lambda_norm` is the 1-norm of the non-identity coefficients of the Pauli decomposition of
`const + Σ T_pq a†_p a_q + Σ V_pq n_p n_q`, as computed by the Spec oracle from the ladder action on all Fock states. -/
theorem lambda_norm_oracle_all (const : GQ) (T V : List (List Rat))
    (symT : ∀ p q, p < T.length → q < T.length → mat T q p = mat T p q)
    (symV : ∀ p q, p < T.length → q < T.length → mat V q p = mat V p q) :
    jwOneNorm T.length (Spec.C04.dchOp T.length const (flatReal T.length T) (flatReal T.length V)) false
      = some (lambdaNorm T V) :=
  lambda_norm_oracle 0 T.length const _ _ T V rfl
    (fun p q hp hq => OFV.C19Jw.get1_flatReal T.length T p q hp hq)
    (fun p q hp hq => OFV.C19Jw.get1_flatReal T.length V p q hp hq) symT symV
    (OFV.C19Jw.jwDCHOk_zero _ _ _ _)

/-- **`get_one_norm_int_woconst` and `get_one_norm_int` = Spec oracle without / with the identity, no side
condition**, every number of orbitals, every real symmetric `h`, every Coulomb-type `g` (see `one_norm_spec_partial`
for the class and for what is missing towards general integrals). -/
theorem one_norm_spec_partial_all (const : Rat) (h : List (List Rat)) (g : List (List (List (List Rat))))
    (hsupp : ∀ p q r s, ¬ (s = p ∧ r = q) → m4 g p q r s = 0)
    (symH : ∀ p q, p < h.length → q < h.length → m2 h q p = m2 h p q)
    (symJ : ∀ p q, p < h.length → q < h.length → m4 g q p p q = m4 g p q q p) :
    jwOneNorm (2 * h.length) (molOp h.length const h g) false = some (oneNormWoConst h g)
    ∧ jwOneNorm (2 * h.length) (molOp h.length const h g) true = some (oneNorm const h g) :=
  ⟨one_norm_spec_partial 0 h.length const h g rfl hsupp symH symJ (OFV.C19Jw.jwDCHOk_zero _ _ _ _),
   one_norm_int_spec_partial 0 h.length const h g rfl hsupp symH symJ (OFV.C19Jw.jwDCHOk_zero _ _ _ _)⟩

/-- **`get_one_norm_int` reduces to `get_one_norm_int_woconst`, for ALL integrals** (no symmetry, every number of
orbitals): whenever the Spec oracle without the identity returns the Model value of `get_one_norm_int_woconst` for the
molecular Hamiltonian, the oracle with the identity returns the Model value of `get_one_norm_int`.  (If the oracle
without the identity returns a value at all, every trace it inspected was real; the identity trace is `4^n · htilde`.)
So the only open part of `one_norm_spec` is the non-identity equality. -/
theorem one_norm_int_of_woconst (const : Rat) (h : List (List Rat)) (g : List (List (List (List Rat))))
    (hw : jwOneNorm (2 * h.length) (molOp h.length const h g) false = some (oneNormWoConst h g)) :
    jwOneNorm (2 * h.length) (molOp h.length const h g) true = some (oneNorm const h g) := by
  rw [OFV.C19Jw.oracle_split h.length const h g _ hw, OFV.C19P.oneNorm_split, add_comm]
  rfl

end OFV.C19
