/-
C02 — property theorems: equality tests and structural predicates decide what they claim.
Only obligations of the check live here; helper lemmas are in OFV/Proofs/C02*.lean.
All statements are about the definitions the driver executes (OFV.Model.C02) and the
reference statements (OFV.Spec.C02).  Tolerances are arbitrary rationals: the theorems
hold in particular for the extracted `EQ_TOLERANCE`.
-/
import OFV.Proofs.C02
import OFV.Proofs.C02Majorana
import OFV.Proofs.C02Pred
import OFV.Proofs.C02Tensor
import OFV.Proofs.C02MajEq
import OFV.Proofs.C02Clifford
import OFV.Proofs.C03Main
import OFV.Proofs.C03Exact
import OFV.Proofs.C02Real
import OFV.Proofs.C02PauliHerm
import OFV.Proofs.C02MajComm
import OFV.Proofs.C02HermIO
import OFV.Proofs.C02Matrix
import OFV.Proofs.C02HermBoson
import OFV.Proofs.C02HermExact

namespace OFV.C02
open OFV OFV.Model OFV.Model.C02 OFV.Proofs.C02

/-! ## `isclose` / `==` (SymbolicOperator), as coded after the per-term-tolerance fix -/

/-- The coded `isclose`, run over ANY iteration order of the two Python sets, is true exactly
when every term's coefficients agree within the tolerance (relative to the larger magnitude
for shared terms, absolute for one-sided terms): the property statement `Spec.C02.Isclose`
(a quantification over all terms, not only the stored ones). -/
theorem isclose_iff_statement (tol : Rat) (a b : Op) (shared sym : List Term)
    (hs : shared.Perm (interKeys a b)) (hy : sym.Perm (symKeys a b)) :
    iscloseWith shared sym tol a b = true ↔ Spec.C02.Isclose tol a b :=
  iscloseWith_iff_spec tol a b shared sym hs hy

/-- … hence the answer does not depend on the set iteration order. -/
theorem isclose_order_independent (tol : Rat) (a b : Op) (s₁ s₂ y₁ y₂ : List Term)
    (h1 : s₁.Perm (interKeys a b)) (h2 : s₂.Perm (interKeys a b))
    (h3 : y₁.Perm (symKeys a b)) (h4 : y₂.Perm (symKeys a b)) :
    iscloseWith s₁ y₁ tol a b = iscloseWith s₂ y₂ tol a b :=
  bool_eq_of_iff ((isclose_iff_statement tol a b s₁ y₁ h1 h3).trans
    (isclose_iff_statement tol a b s₂ y₂ h2 h4).symm)

/-- `a.isclose(b) = b.isclose(a)`. -/
theorem isclose_symm (tol : Rat) (a b : Op) : isclose tol a b = isclose tol b a :=
  bool_eq_of_iff ((isclose_iff_spec tol a b).trans
    ((spec_isclose_symm tol a b).trans (isclose_iff_spec tol b a).symm))

/-- The answer does not depend on the insertion order of the dictionaries (two dictionaries
with the same items in another order are the same operator). -/
theorem isclose_insertion_order (tol : Rat) (a a' b b' : Op) (ha : a.Perm a') (hb : b.Perm b')
    (wa : Dict.WF a) (wb : Dict.WF b) : isclose tol a b = isclose tol a' b' := by
  apply bool_eq_of_iff
  rw [isclose_iff_spec, isclose_iff_spec]
  unfold Spec.C02.Isclose
  constructor <;> intro h t <;> have := h t <;>
    simpa [get?_perm ha wa t, get?_perm hb wb t] using this

/-- Locality: the answer does not depend on how many other terms the operators share —
adding a term `k` (absent from both) with the same coefficient to both sides changes nothing
(for a positive tolerance).  This is the statement the pre-fix code violated. -/
theorem isclose_common_term_irrelevant (tol : Rat) (ht : 0 < tol) (a b : Op) (k : Term) (c : GQ)
    (ha : Dict.get? a k = none) (hb : Dict.get? b k = none) :
    isclose tol (Dict.set a k c) (Dict.set b k c) = isclose tol a b := by
  apply bool_eq_of_iff
  rw [isclose_iff_spec, isclose_iff_spec]
  unfold Spec.C02.Isclose
  constructor
  · intro h t
    have := h t
    rw [get?_set, get?_set] at this
    by_cases hk : k = t
    · subst hk; simp [ha, hb, Spec.C02.coefClose]
    · simpa [hk] using this
  · intro h t
    rw [get?_set, get?_set]
    by_cases hk : k = t
    · simp only [hk, if_true]; exact coefClose_refl tol ht c
    · simpa [hk] using h t

/-- One coefficient out of tolerance makes the operators unequal whatever else they contain. -/
theorem isclose_false_of_bad_term (tol : Rat) (a b : Op) (t : Term) (x y : GQ)
    (ha : Dict.get? a t = some x) (hb : Dict.get? b t = some y)
    (hbad : Spec.C02.relClose tol x y = false) : isclose tol a b = false := by
  cases h : isclose tol a b
  · rfl
  · have := (isclose_iff_spec tol a b).1 h t
    rw [ha, hb] at this
    simp [Spec.C02.coefClose, hbad] at this

/-- reflexivity for a positive tolerance (for `tol ≤ 0` the strict `<` makes every non-empty
comparison false: `x.isclose(x, 0) = False`, mirrored by the Model). -/
theorem isclose_refl (tol : Rat) (ht : 0 < tol) (a : Op) : isclose tol a a = true := by
  rw [isclose_iff_spec]
  intro t
  cases h : Dict.get? a t with
  | none => rfl
  | some x => exact coefClose_refl tol ht x

-- non-vacuity: a pair that differs in one of two shared coefficients by more than the tolerance
example : isclose (1 / 100) [([(0, 1)], ⟨10, 0⟩), ([(1, 3)], ⟨3, 0⟩)]
    [([(1, 3)], ⟨2, 0⟩), ([(0, 1)], ⟨10, 0⟩)] = false := by
  apply isclose_false_of_bad_term _ _ _ [(1, 3)] ⟨3, 0⟩ ⟨2, 0⟩ rfl rfl
  rw [Bool.eq_false_iff, Ne, spec_relClose_iff]
  simp [GQ.normSq]; norm_num

/-! ## `MajoranaOperator.__eq__` (numpy.isclose per term, both ways for shared terms) -/

/-- The coded loop over ANY iteration order of `self.terms.keys() | other.terms.keys()` is the
conjunction over all terms of the per-term test — independent of order and of other terms. -/
theorem majEq_per_term (atol rtol : Rat) (a b : MOp) (order : List MTerm)
    (hp : order.Perm (unionKeys a b)) :
    majEqWith order atol rtol a b = true ↔ ∀ t, majTermClose atol rtol a b t = true :=
  majEqWith_iff atol rtol a b order hp

/-- The coded `==` (HEAD: shared terms are tested with `numpy.isclose` both ways) is true exactly
when every term's coefficients satisfy `|x - y| ≤ atol + rtol · max(|x|, |y|)` (shared) or
`|x| ≤ atol` (one-sided): the symmetric per-term statement `Spec.C02.MajEq`. -/
theorem majEq_iff_statement (atol rtol : Rat) (h : 0 ≤ atol) (a b : MOp) (order : List MTerm)
    (hp : order.Perm (unionKeys a b)) :
    majEqWith order atol rtol a b = true ↔ Spec.C02.MajEq atol rtol a b := by
  rw [majEqWith_iff atol rtol a b order hp]
  unfold Spec.C02.MajEq
  constructor <;> intro hh t
  · exact (majTermClose_iff atol rtol h a b t).1 (hh t)
  · exact (majTermClose_iff atol rtol h a b t).2 (hh t)

/-- the statement is symmetric … -/
theorem spec_majEq_symm (atol rtol : Rat) (a b : MOp) :
    Spec.C02.MajEq atol rtol a b ↔ Spec.C02.MajEq atol rtol b a := by
  unfold Spec.C02.MajEq
  constructor <;> intro h t <;> rw [majCoefClose_symm] <;> exact h t

/-- … and so is the code now: `(a == b) = (b == a)` (repaired finding F02c: before commit
282d5e66 `MajoranaOperator((0,), 1e6) == MajoranaOperator((0,), 1e6 + 10.0001)` was True and the
reversed comparison False). -/
theorem majEq_symm (atol rtol : Rat) (h : 0 ≤ atol) (a b : MOp) :
    majEq atol rtol a b = majEq atol rtol b a :=
  bool_eq_of_iff ((majEq_iff_statement atol rtol h a b _ (List.Perm.refl _)).trans
    ((spec_majEq_symm atol rtol a b).trans
      (majEq_iff_statement atol rtol h b a _ (List.Perm.refl _)).symm))

/-- regression witness of F02c on the Model: both directions now agree (and are True). -/
theorem majEq_former_counterexample_symmetric :
    majEq (1 / 100000000) (1 / 100000) [([0], ⟨1000000, 0⟩)] [([0], ⟨1000000 + 100001 / 10000, 0⟩)] = true ∧
    majEq (1 / 100000000) (1 / 100000) [([0], ⟨1000000 + 100001 / 10000, 0⟩)] [([0], ⟨1000000, 0⟩)] = true := by
  constructor
  · simp [majEq, majEqWith, unionKeys, Dict.keys, Dict.contains, Dict.get?, majTermClose, npIsclose,
      sqrtLeAffine, GQ.normSq]
    norm_num
  · simp [majEq, majEqWith, unionKeys, Dict.keys, Dict.contains, Dict.get?, majTermClose, npIsclose,
      sqrtLeAffine, GQ.normSq]
    norm_num

/-! ## `commutes_with`: the single-term shortcut agrees with the general path -/

/-- `_merge_majorana_terms` in either order yields the same index list and
`parity(a,b) + parity(b,a) + |a ∩ b| = |a|·|b|` — for ALL index lists. -/
theorem merge_parity_identity (a b : MTerm) :
    (mergeM a b).1 = (mergeM b a).1 ∧
    (mergeM a b).2 + (mergeM b a).2 + interM a b = a.length * b.length :=
  ⟨mergeM_term_comm a b, mergeM_parity_sum a b⟩

/-- `_majorana_terms_commute(a, b)` is true exactly when the Model products
`c_a γ_a · c_b γ_b` and `c_b γ_b · c_a γ_a` (what the general path compares) are equal, for
all index lists and all coefficients with `c_a c_b ≠ 0`.  (With a zero coefficient the
products are both zero but the shortcut may answer False: finding F02d.) -/
theorem commutes_shortcut_iff_products_equal (ta tb : MTerm) (ca cb : GQ) (h : ca * cb ≠ 0) :
    majoranaTermsCommute ta tb = true ↔ mmul [(ta, ca)] [(tb, cb)] = mmul [(tb, cb)] [(ta, ca)] := by
  rw [mmul_single, mmul_single, shortcut_iff_parities, mergeM_term_comm tb ta, gq_mul_comm cb ca]
  constructor
  · intro hp; rw [(mul_sgn_eq_iff (ca * cb) h _ _).2 hp]
  · intro he
    have : ca * cb * GQ.sgn (mergeM ta tb).2 = ca * cb * GQ.sgn (mergeM tb ta).2 := by
      simpa using he
    exact (mul_sgn_eq_iff (ca * cb) h _ _).1 this

/-- **`_majorana_terms_commute` decides commutation in the Spec** (Majorana action `Spec.actM` on
Fock bit masks, `γ_{2j} = a_j + a_j^†`, `γ_{2j+1} = i(a_j^† - a_j)`): for strictly increasing index
lists the shortcut is True iff `γ_a γ_b` and `γ_b γ_a` act identically on every basis state.
Uses the shared soundness lemma of `_merge_majorana_terms` (C01) and the parity identity above. -/
theorem majorana_terms_commute_iff (a b : MTerm) (ha : a.Pairwise (· < ·)) (hb : b.Pairwise (· < ·)) :
    majoranaTermsCommute a b = true ↔ ∀ s, Spec.actMTerm (a ++ b) s = Spec.actMTerm (b ++ a) s :=
  majoranaTermsCommute_iff_spec a b ha hb

example : majoranaTermsCommute [0, 1] [1, 2] = false ∧ majoranaTermsCommute [0, 1] [2, 3] = true := by
  simp [majoranaTermsCommute, interM]

/-! ## structural predicates: the nested loops equal their definitions -/

/-- `FermionOperator.is_normal_ordered` (adjacent pairs visited by the double loop) ⇔ every
term is normal ordered in the all-pairs sense: no annihilator left of any creator, equal ladder
types strictly decreasing in mode index. -/
theorem is_normal_ordered_fermion_iff (a : Op) (hv : ∀ e ∈ a, ∀ f ∈ e.1, f.2 < 2) :
    fermionIsNormalOrdered a = true ↔ ∀ e ∈ a, Spec.C02.NormalOrderedF e.1 := by
  unfold fermionIsNormalOrdered
  rw [List.all_eq_true]
  constructor <;> intro h e he
  · have := h e he
    exact (fermion_term_normal_iff e.1 (hv e he)).1 (by simpa using this)
  · have := (fermion_term_normal_iff e.1 (hv e he)).2 (h e he)
    simpa using this

/-- `BosonOperator.is_normal_ordered` on index-sorted terms (the class invariant). -/
theorem is_normal_ordered_boson_iff (a : Op) (hs : ∀ e ∈ a, e.1.Pairwise (fun l r => l.1 ≤ r.1)) :
    bosonIsNormalOrdered a = true ↔ ∀ e ∈ a, Spec.C02.NormalOrderedB e.1 := by
  unfold bosonIsNormalOrdered
  rw [List.all_eq_true]
  constructor <;> intro h e he
  · have := h e he
    exact (boson_term_normal_iff e.1 (hs e he)).1 (by simpa using this)
  · have := (boson_term_normal_iff e.1 (hs e he)).2 (h e he)
    simpa using this

example : fermionIsNormalOrdered [([(2, 1), (0, 1), (3, 0), (1, 0)], 1)] = true ∧
    fermionIsNormalOrdered [([(2, 1), (3, 0), (0, 1)], 1)] = false := by decide

/-- `is_boson_preserving` ⇔ every term has as many creators as annihilators. -/
theorem is_boson_preserving_iff (a : Op) (hv : ∀ e ∈ a, ∀ f ∈ e.1, f.2 < 2) :
    isBosonPreserving a = true ↔ ∀ e ∈ a, Spec.C02.NumberConserving e.1 := by
  unfold isBosonPreserving Spec.C02.NumberConserving
  rw [List.all_eq_true]
  constructor <;> intro h e he
  · have := h e he
    simp only [beq_iff_eq] at this
    rw [particles_eq e.1 (hv e he)] at this
    omega
  · simp only [beq_iff_eq]
    rw [particles_eq e.1 (hv e he)]
    have := h e he
    omega

/-- `is_two_body_number_conserving(check_spin_symmetry)` ⇔ every term has 0, 2 or 4 factors,
conserves the particle number and (if asked) the number of up (even index) and down (odd
index) particles separately. -/
theorem is_two_body_number_conserving_iff (cs : Bool) (a : Op) (hv : ∀ e ∈ a, ∀ f ∈ e.1, f.2 < 2) :
    isTwoBodyNumberConserving cs a = true ↔ Spec.C02.TwoBodyNumberConserving cs a := by
  unfold isTwoBodyNumberConserving Spec.C02.TwoBodyNumberConserving Spec.C02.NumberConserving
    Spec.C02.SpinConserving
  rw [List.all_eq_true]
  constructor <;> intro h e he <;> have := h e he <;>
    have hp := particles_eq e.1 (hv e he) <;> have hsp := spin_eq e.1 (hv e he) <;>
    have c0 := cnt_split e.1 0 <;> have c1 := cnt_split e.1 1
  · obtain ⟨t, c⟩ := e
    simp only at *
    by_cases hl : (t.length == 0 || t.length == 2 || t.length == 4) = true
    · simp only [hl, Bool.not_true, Bool.false_eq_true, if_false] at this
      by_cases hq : (particles t != 0) = true
      · simp [hq] at this
      · simp only [hq] at this
        have hq' : particles t = 0 := by simpa using hq
        refine ⟨by simpa [or_assoc] using hl, by omega, ?_⟩
        intro hcs
        subst hcs
        by_cases hs : (spin t != 0) = true
        · simp [hs] at this
        · have hs' : spin t = 0 := by simpa using hs
          omega
    · simp [hl] at this
  · obtain ⟨t, c⟩ := e
    simp only at *
    obtain ⟨hl, hn, hspin⟩ := this
    have hl' : (t.length == 0 || t.length == 2 || t.length == 4) = true := by simpa [or_assoc] using hl
    have hq' : particles t = 0 := by omega
    simp only [hl', Bool.not_true, Bool.false_eq_true, if_false, hq', bne_self_eq_false]
    cases cs
    · simp
    · have := hspin rfl
      have hs' : spin t = 0 := by omega
      simp [hs']

example : isTwoBodyNumberConserving true [([(3, 1), (0, 1), (2, 0), (1, 0)], 1)] = true ∧
    isTwoBodyNumberConserving true [([(3, 1), (0, 1), (2, 0), (2, 0)], 1)] = false ∧
    isTwoBodyNumberConserving false [([(3, 1), (0, 1), (2, 0), (2, 0)], 1)] = true := by decide

/-! ## `PolynomialTensor.__eq__` -/

/-- The max-abs test over ANY iteration order of the key union is true exactly when the
sizes agree and every entry of every key agrees within the (positive) tolerance, a missing
key counting as the zero tensor. -/
theorem tensor_eq_iff (tol : Rat) (na nb : Nat) (a b : Tensors) (order : List (List Nat))
    (hp : order.Perm (tensorUnionKeys a b))
    (hshape : ∀ k x y, Dict.get? a k = some x → Dict.get? b k = some y → x.length = y.length) :
    tensorEqWith order tol na a nb b = true ↔ Spec.C02.TensorEq tol na a nb b :=
  tensorEqWith_iff tol na nb a b order hp hshape

example : tensorEq (1 / 100) 1 [([1, 0], [⟨1, 0⟩])] 1 [([], [⟨1 / 1000, 0⟩]), ([1, 0], [⟨1, 0⟩])] = true := by
  simp [tensorEq, tensorEqWith, tensorUnionKeys, tensorDiffSq, discrepancySq, amaxSq, diffEntries, rmax,
    Dict.keys, Dict.contains, Dict.get?, GQ.normSq]
  norm_num

/-! ## `is_identity` -/

/-- `list(terms) == [()]` ⇔ the dictionary is exactly `{(): c}`.  (Whether such an operator
is the identity up to the non-zero scalar `c` depends on `c ≠ 0`; the converse — every
operator that denotes a multiple of the identity is recognised — is FALSE for dictionaries
with stored zeros or non-normal-ordered spellings: finding F02b, checked by the oracle.) -/
theorem is_identity_iff (a : Op) : isIdentity a = true ↔ ∃ c, a = [([], c)] := by
  unfold isIdentity Dict.keys
  constructor
  · intro h
    have h' : a.map (·.1) = [[]] := by simpa using h
    match a, h' with
    | [(t, c)], h' =>
      simp at h'
      exact ⟨c, by rw [h']⟩
  · rintro ⟨c, rfl⟩; rfl

/-! ## the rational Model is the real-number semantics of the coded formulas

`abs` of a complex number is a square root; the Model compares squares.  Over the reals
(`absR x = √(re² + im²)`) the three tests are literally the expressions in the source. -/

/-- `_issmall(v, tol)`: `abs(v) < tol`. -/
theorem issmall_iff_real (v : GQ) (t : ℚ) : absLt v t = true ↔ absR v < (t : ℝ) :=
  absLt_iff_real v t

/-- shared term of `isclose`: `abs(a - b) < tol * max(1, abs(a), abs(b))`. -/
theorem isclose_term_iff_real (tol : ℚ) (a b : GQ) :
    closeRel tol a b = true ↔ absR (a - b) < (tol : ℝ) * max 1 (max (absR a) (absR b)) :=
  closeRel_iff_real tol a b

/-- `numpy.isclose(a, b)`: `abs(a - b) <= atol + rtol * abs(b)` (`atol, rtol ≥ 0`). -/
theorem numpy_isclose_iff_real (atol rtol : ℚ) (ha : 0 ≤ atol) (hr : 0 ≤ rtol) (a b : GQ) :
    npIsclose atol rtol a b = true ↔ absR (a - b) ≤ (atol : ℝ) + (rtol : ℝ) * absR b :=
  npIsclose_iff_real atol rtol ha hr a b

/-! ## `is_hermitian(FermionOperator)` — relies on the canonicity of normal ordering (C03) -/

/-- A FermionOperator is Hermitian in the Spec (`⟨out|A|s⟩ = conj ⟨s|A|out⟩` on all Fock basis
states) IF AND ONLY IF `normal_ordered(A)` and `normal_ordered(hermitian_conjugated(A))` have the
same coefficients — the two dictionaries `is_hermitian` compares.  (Uses: `hermitian_conjugated`
conjugate-transposes the Spec matrix elements; soundness and canonicity of normal ordering.) -/
theorem is_hermitian_fermion_iff (a : Op) (wa : Dict.WF a) (hv : ∀ e ∈ a, ∀ f ∈ e.1, f.2 < 2) :
    (∀ s out, Spec.melF a out s = (Spec.melF a s out).conj) ↔
      ∀ t, Dict.getD (C03.normalOrdered 0 .fermion a) t 0 =
        Dict.getD (C03.normalOrdered 0 .fermion (hcFermion a)) t 0 :=
  Proofs.C03.hermitian_fermion_iff a wa hv

/-- equal coefficient functions compare equal (positive tolerance) -/
theorem isclose_of_coefficients_equal (tol : Rat) (ht : 0 < tol) (X Y : Op)
    (h : ∀ t, Dict.getD X t 0 = Dict.getD Y t 0) : isclose tol X Y = true := by
  rw [isclose_iff_spec]
  intro t
  have := h t
  unfold Dict.getD at this
  cases hx : Dict.get? X t <;> cases hy : Dict.get? Y t <;> simp only [hx, hy, Option.getD] at this
  · rfl
  · simp only [Spec.C02.coefClose]; rw [← this, spec_absLt_iff]
    exact ⟨ht, by simp [GQ.normSq]; exact ne_of_gt ht⟩
  · simp only [Spec.C02.coefClose]; rw [this, spec_absLt_iff]
    exact ⟨ht, by simp [GQ.normSq]; exact ne_of_gt ht⟩
  · rw [this]; exact coefClose_refl tol ht _

/-- completeness of the coded test in the exact regime: a Hermitian FermionOperator with
coefficients on a lattice `(1/D)ℤ[i]`, `0 < tol`, `tol·D ≤ 1`, is recognised. -/
theorem is_hermitian_fermion_complete (D : Nat) (hD : 0 < D) (tol : Rat) (ht : 0 < tol) (h1 : tol * D ≤ 1)
    (a : Op) (wa : Dict.WF a) (hv : ∀ e ∈ a, ∀ f ∈ e.1, f.2 < 2) (la : ∀ e ∈ a, Proofs.C03.Lat D e.2)
    (hh : ∀ s out, Spec.melF a out s = (Spec.melF a s out).conj) :
    isHermitianFermion tol a = true := by
  unfold isHermitianFermion
  apply isclose_of_coefficients_equal tol ht
  intro t
  have lh : ∀ e ∈ hcFermion a, Proofs.C03.Lat D e.2 := by
    rw [Proofs.C03.hcFermion_eq_map a wa hv]
    intro e he
    obtain ⟨x, hx, rfl⟩ := List.mem_map.1 he
    obtain ⟨m, n, h1', h2'⟩ := la x hx
    exact ⟨m, -n, by simp [GQ.conj, h1'], by simp [GQ.conj, h2']; ring⟩
  rw [Proofs.C03.normal_ordered_exact_regime_aux D hD tol (le_of_lt ht) h1 a la,
    Proofs.C03.normal_ordered_exact_regime_aux D hD tol (le_of_lt ht) h1 (hcFermion a) lh]
  exact (is_hermitian_fermion_iff a wa hv).1 hh t

/-- **`is_hermitian(FermionOperator)` decides Hermiticity in the Spec (executed function, real
tolerance)**: for lattice inputs `(1/D)ℤ[i]`, `0 < tol`, `tol·D ≤ 1`, and under the decidable
exact-regime hypothesis that coefficients of the two normal-ordered dictionaries which `==` calls
close are equal, the coded test is True IF AND ONLY IF `⟨out|A|s⟩ = conj ⟨s|A|out⟩` on all Fock
basis states. -/
theorem is_hermitian_fermion_iff_tol (D : Nat) (hD : 0 < D) (tol : Rat) (ht : 0 < tol) (h1 : tol * D ≤ 1)
    (a : Op) (wa : Dict.WF a) (hv : ∀ e ∈ a, ∀ f ∈ e.1, f.2 < 2) (la : ∀ e ∈ a, Proofs.C03.Lat D e.2)
    (hexact : ∀ t, Spec.C02.coefClose tol
        (Dict.get? (C03.normalOrdered tol .fermion a) t)
        (Dict.get? (C03.normalOrdered tol .fermion (hcFermion a)) t) = true →
      Dict.getD (C03.normalOrdered tol .fermion a) t 0 =
        Dict.getD (C03.normalOrdered tol .fermion (hcFermion a)) t 0) :
    isHermitianFermion tol a = true ↔ ∀ s out, Spec.melF a out s = (Spec.melF a s out).conj := by
  constructor
  · intro h
    unfold isHermitianFermion at h
    rw [isclose_iff_spec] at h
    have lh : ∀ e ∈ hcFermion a, Proofs.C03.Lat D e.2 := by
      rw [Proofs.C03.hcFermion_eq_map a wa hv]
      intro e he
      obtain ⟨x, hx, rfl⟩ := List.mem_map.1 he
      obtain ⟨m, n, h1', h2'⟩ := la x hx
      exact ⟨m, -n, by simp [GQ.conj, h1'], by simp [GQ.conj, h2']; ring⟩
    apply (is_hermitian_fermion_iff a wa hv).2
    intro t
    rw [← Proofs.C03.normal_ordered_exact_regime_aux D hD tol (le_of_lt ht) h1 a la,
      ← Proofs.C03.normal_ordered_exact_regime_aux D hD tol (le_of_lt ht) h1 (hcFermion a) lh]
    exact hexact t (h t)
  · exact is_hermitian_fermion_complete D hD tol ht h1 a wa hv la

/-! ## `is_hermitian(BosonOperator)`

The polynomial representation of the Spec (`b† ↦ x·`, `b ↦ ∂`) carries no inner product, so the
statement decided is "the operator and its formal adjoint `hermitian_conjugated(A)` (terms reversed,
actions flipped, coefficients conjugated, re-sorted by index) denote the same operator". -/

/-- `hermitian_conjugated(BosonOperator)` stores only valid action codes and stays on the
coefficient lattice of its argument. -/
theorem hermitian_conjugated_boson_wellformed (D : Nat) (a : Op) (hv : ∀ e ∈ a, ∀ f ∈ e.1, f.2 < 2)
    (la : ∀ e ∈ a, Proofs.C03.Lat D e.2) :
    (∀ e ∈ hcBoson a, ∀ f ∈ e.1, f.2 < 2) ∧ (∀ e ∈ hcBoson a, Proofs.C03.Lat D e.2) :=
  ⟨Proofs.C02.hcBoson_valid a hv, Proofs.C02.hcBoson_lat D a la⟩

/-- **`is_hermitian(BosonOperator)`, tolerance 0 form**: `A` and `hermitian_conjugated(A)` have the
same Spec coefficients `⟨x^out| · |x^s⟩` on all canonical exponent vectors IF AND ONLY IF the two
normal-ordered dictionaries `is_hermitian` compares have equal coefficients. -/
theorem is_hermitian_boson_iff (a : Op) (hv : ∀ e ∈ a, ∀ f ∈ e.1, f.2 < 2) :
    (∀ s out, Proofs.C03.Trimmed s → Proofs.C03.Trimmed out →
      Spec.GV.coeff (Spec.applyOp .boson a s) out = Spec.GV.coeff (Spec.applyOp .boson (hcBoson a) s) out) ↔
      ∀ t, Dict.getD (C03.normalOrdered 0 .boson a) t 0 =
        Dict.getD (C03.normalOrdered 0 .boson (hcBoson a)) t 0 :=
  Proofs.C03.canonicity_boson_iff a (hcBoson a) hv (Proofs.C02.hcBoson_valid a hv)

/-- completeness of the executed test in the exact regime (lattice inputs, `0 < tol`, `tol·D ≤ 1`). -/
theorem is_hermitian_boson_complete (D : Nat) (hD : 0 < D) (tol : Rat) (ht : 0 < tol) (h1 : tol * D ≤ 1)
    (a : Op) (hv : ∀ e ∈ a, ∀ f ∈ e.1, f.2 < 2) (la : ∀ e ∈ a, Proofs.C03.Lat D e.2)
    (hh : ∀ s out, Proofs.C03.Trimmed s → Proofs.C03.Trimmed out →
      Spec.GV.coeff (Spec.applyOp .boson a s) out = Spec.GV.coeff (Spec.applyOp .boson (hcBoson a) s) out) :
    isHermitianBoson tol a = true := by
  unfold isHermitianBoson
  apply isclose_of_coefficients_equal tol ht
  intro t
  rw [Proofs.C02.normal_ordered_exact_regime_boson D hD tol (le_of_lt ht) h1 a la,
    Proofs.C02.normal_ordered_exact_regime_boson D hD tol (le_of_lt ht) h1 (hcBoson a)
      (Proofs.C02.hcBoson_lat D a la)]
  exact (is_hermitian_boson_iff a hv).1 hh t

/-- **`is_hermitian(BosonOperator)` (executed function, real tolerance)**: on lattice inputs, under
the decidable exact-regime hypothesis that coefficients which `==` calls close are equal, the coded
test is True IF AND ONLY IF the operator and its formal adjoint denote the same Spec operator. -/
theorem is_hermitian_boson_iff_tol (D : Nat) (hD : 0 < D) (tol : Rat) (ht : 0 < tol) (h1 : tol * D ≤ 1)
    (a : Op) (hv : ∀ e ∈ a, ∀ f ∈ e.1, f.2 < 2) (la : ∀ e ∈ a, Proofs.C03.Lat D e.2)
    (hexact : ∀ t, Spec.C02.coefClose tol
        (Dict.get? (C03.normalOrdered tol .boson a) t)
        (Dict.get? (C03.normalOrdered tol .boson (hcBoson a)) t) = true →
      Dict.getD (C03.normalOrdered tol .boson a) t 0 =
        Dict.getD (C03.normalOrdered tol .boson (hcBoson a)) t 0) :
    isHermitianBoson tol a = true ↔
      ∀ s out, Proofs.C03.Trimmed s → Proofs.C03.Trimmed out →
        Spec.GV.coeff (Spec.applyOp .boson a s) out =
          Spec.GV.coeff (Spec.applyOp .boson (hcBoson a) s) out := by
  constructor
  · intro h
    unfold isHermitianBoson at h
    rw [isclose_iff_spec] at h
    apply (is_hermitian_boson_iff a hv).2
    intro t
    rw [← Proofs.C02.normal_ordered_exact_regime_boson D hD tol (le_of_lt ht) h1 a la,
      ← Proofs.C02.normal_ordered_exact_regime_boson D hD tol (le_of_lt ht) h1 (hcBoson a)
        (Proofs.C02.hcBoson_lat D a la)]
    exact hexact t (h t)
  · exact is_hermitian_boson_complete D hD tol ht h1 a hv la

/-! ## `is_hermitian` without the exactness hypothesis: bounded lattice coefficients -/

/-- **`==` is exact on bounded lattice dictionaries**: coefficients on `(1/D)ℤ[i]`, magnitudes `≤ M`,
`tol·D·M ≤ 1` — then the coefficient test of `isclose` (absolute for one-sided terms, relative to
`max(1,|x|,|y|)` for shared ones) accepts a term only if the two coefficients are EQUAL. -/
theorem isclose_exact_on_bounded_lattice (D M : Nat) (hD : 0 < D) (hM : 0 < M) (tol : Rat) (ht : 0 < tol)
    (h1 : tol * ((D * M : Nat) : Rat) ≤ 1) (X Y : Op)
    (lX : ∀ e ∈ X, Proofs.C03.Lat D e.2) (lY : ∀ e ∈ Y, Proofs.C03.Lat D e.2)
    (bX : ∀ t, (Dict.getD X t 0).normSq ≤ (M : Rat) * M)
    (bY : ∀ t, (Dict.getD Y t 0).normSq ≤ (M : Rat) * M) :
    isclose tol X Y = true ↔ ∀ t, Dict.getD X t 0 = Dict.getD Y t 0 := by
  constructor
  · intro h t
    rw [isclose_iff_spec] at h
    exact Proofs.C02.isclose_lat_eq D M hD hM tol ht h1 X Y lX lY bX bY t (h t)
  · exact isclose_of_coefficients_equal tol ht X Y

/-- **`is_hermitian(FermionOperator)` decides Hermiticity (executed function, real tolerance, no
exactness hypothesis)**: lattice inputs `(1/D)ℤ[i]`, the two normal-ordered dictionaries have
coefficients of magnitude `≤ M`, `tol·D·M ≤ 1` (e.g. `tol = 1e-8`, `D = 2^16`, `M = 2^10`). -/
theorem is_hermitian_fermion_iff_tol_bounded (D M : Nat) (hD : 0 < D) (hM : 0 < M) (tol : Rat) (ht : 0 < tol)
    (h1 : tol * ((D * M : Nat) : Rat) ≤ 1)
    (a : Op) (wa : Dict.WF a) (hv : ∀ e ∈ a, ∀ f ∈ e.1, f.2 < 2) (la : ∀ e ∈ a, Proofs.C03.Lat D e.2)
    (bX : ∀ t, (Dict.getD (C03.normalOrdered tol .fermion a) t 0).normSq ≤ (M : Rat) * M)
    (bY : ∀ t, (Dict.getD (C03.normalOrdered tol .fermion (hcFermion a)) t 0).normSq ≤ (M : Rat) * M) :
    isHermitianFermion tol a = true ↔ ∀ s out, Spec.melF a out s = (Spec.melF a s out).conj := by
  have hd := Proofs.C02.tolD_le D M hM tol ht h1
  have lh : ∀ e ∈ hcFermion a, Proofs.C03.Lat D e.2 := by
    rw [Proofs.C03.hcFermion_eq_map a wa hv]
    intro e he
    obtain ⟨x, hx, rfl⟩ := List.mem_map.1 he
    obtain ⟨m, n, h1', h2'⟩ := la x hx
    exact ⟨m, -n, by simp [GQ.conj, h1'], by simp [GQ.conj, h2']; ring⟩
  have sim := fun (b : Op) (lb : ∀ e ∈ b, Proofs.C03.Lat D e.2) =>
    (Proofs.C03.normalOrdered_sim D hD tol (le_of_lt ht) hd .fermion (Proofs.C03.hk_fermion D)
      (fun _ c hc => Proofs.C03.lat_mul_one D c hc) b lb).2.2.1
  apply is_hermitian_fermion_iff_tol D hD tol ht hd a wa hv la
  intro t h
  exact Proofs.C02.isclose_lat_eq D M hD hM tol ht h1 _ _ (sim a la) (sim _ lh) bX bY t h

/-- the same for `is_hermitian(BosonOperator)` (statement: `A` and its formal adjoint denote the
same operator in the polynomial Spec). -/
theorem is_hermitian_boson_iff_tol_bounded (D M : Nat) (hD : 0 < D) (hM : 0 < M) (tol : Rat) (ht : 0 < tol)
    (h1 : tol * ((D * M : Nat) : Rat) ≤ 1)
    (a : Op) (hv : ∀ e ∈ a, ∀ f ∈ e.1, f.2 < 2) (la : ∀ e ∈ a, Proofs.C03.Lat D e.2)
    (bX : ∀ t, (Dict.getD (C03.normalOrdered tol .boson a) t 0).normSq ≤ (M : Rat) * M)
    (bY : ∀ t, (Dict.getD (C03.normalOrdered tol .boson (hcBoson a)) t 0).normSq ≤ (M : Rat) * M) :
    isHermitianBoson tol a = true ↔
      ∀ s out, Proofs.C03.Trimmed s → Proofs.C03.Trimmed out →
        Spec.GV.coeff (Spec.applyOp .boson a s) out =
          Spec.GV.coeff (Spec.applyOp .boson (hcBoson a) s) out := by
  have hd := Proofs.C02.tolD_le D M hM tol ht h1
  have sim := fun (b : Op) (lb : ∀ e ∈ b, Proofs.C03.Lat D e.2) =>
    (Proofs.C03.normalOrdered_sim D hD tol (le_of_lt ht) hd .boson (Proofs.C03.hk_boson D)
      (fun _ c hc => Proofs.C03.lat_mul_one D c hc) b lb).2.2.1
  apply is_hermitian_boson_iff_tol D hD tol ht hd a hv la
  intro t h
  exact Proofs.C02.isclose_lat_eq D M hD hM tol ht h1 _ _ (sim a la)
    (sim _ (Proofs.C02.hcBoson_lat D a la)) bX bY t h

/-- **`is_hermitian(QuadOperator)`, soundness** (the coded test does not normal-order — known
finding F02e — so only this direction holds): on bounded lattice inputs, if the coded test is True
then `A` and `hermitian_conjugated(A)` have the same coefficient on EVERY term, hence the same
Spec coefficients `⟨x^out| · |x^s⟩` for every `ħ` and all exponent vectors. -/
theorem is_hermitian_quad_sound (D M : Nat) (hD : 0 < D) (hM : 0 < M) (tol : Rat) (ht : 0 < tol)
    (h1 : tol * ((D * M : Nat) : Rat) ≤ 1) (hbar : GQ)
    (a : Op) (wa : Dict.WF a) (la : ∀ e ∈ a, Proofs.C03.Lat D e.2)
    (bX : ∀ t, (Dict.getD a t 0).normSq ≤ (M : Rat) * M)
    (bY : ∀ t, (Dict.getD (hcQuad a) t 0).normSq ≤ (M : Rat) * M)
    (h : isHermitianQuad tol a = true) :
    (∀ t, Dict.getD a t 0 = Dict.getD (hcQuad a) t 0) ∧
    ∀ s out, Spec.GV.coeff (Spec.applyOp (.quad hbar) a s) out =
      Spec.GV.coeff (Spec.applyOp (.quad hbar) (hcQuad a) s) out := by
  unfold isHermitianQuad at h
  have he := (isclose_exact_on_bounded_lattice D M hD hM tol ht h1 a (hcQuad a) la
    (Proofs.C02.hcQuad_lat D a la) bX bY).1 h
  exact ⟨he, fun s out => Proofs.C03.applyOp_coeff_congr (.quad hbar) (Spec.actQuad hbar) (fun _ _ => rfl)
    a (hcQuad a) wa (Proofs.C02.wf_hcQuad a) he s out⟩

-- non-vacuity: EQ_TOLERANCE with D = 2^16, M = 2^10
example : Generated.eqTolerance * ((2 ^ 16 * 2 ^ 10 : Nat) : Rat) ≤ 1 := by
  norm_num [Generated.eqTolerance]

/-! ## `is_hermitian(QubitOperator)` — Pauli strings are Hermitian and linearly independent -/

/-- **distinct canonical Pauli strings are linearly independent** on `n` qubits (trace
orthogonality: for `P ≠ Q` the summands of `tr(P†Q)` vanish or cancel under `s ↦ s ⊕ 2^j`). -/
theorem pauli_strings_independent (D : Op) (n : Nat) (hwf : Dict.WF D) (hc : ∀ e ∈ D, PauliCanonical e.1)
    (hb : ∀ e ∈ D, ∀ f ∈ e.1, f.1 < n) (hz : ∀ s t, s < 2 ^ n → Spec.melQ D t s = 0) : ∀ e ∈ D, e.2 = 0 :=
  pauli_independent D n hwf hc hb hz

/-- A QubitOperator with canonical strings (what the class stores) is Hermitian in the Spec
(`⟨t|A|s⟩ = conj ⟨s|A|t⟩` for all basis states) IF AND ONLY IF all its coefficients are real. -/
theorem is_hermitian_qubit_iff_real (a : Op) (n : Nat) (wa : Dict.WF a) (hc : ∀ e ∈ a, PauliCanonical e.1)
    (hb : ∀ e ∈ a, ∀ f ∈ e.1, f.1 < n) :
    (∀ s t, Spec.melQ a t s = (Spec.melQ a s t).conj) ↔ ∀ e ∈ a, e.2.conj = e.2 :=
  hermitian_qubit_iff_real a n wa hc hb

/-- the coded `is_hermitian(QubitOperator)` (`op == hermitian_conjugated(op)`) is true iff every
coefficient is within the `==` tolerance of its conjugate — "real up to the tolerance". -/
theorem is_hermitian_qubit_termwise (tol : Rat) (a : Op) (wa : Dict.WF a) :
    isHermitianQubit tol a = true ↔ ∀ e ∈ a, closeRel tol e.2 e.2.conj = true :=
  isHermitianQubit_iff_termwise tol a wa

/-- hence: a Hermitian QubitOperator is always recognised (positive tolerance). -/
theorem is_hermitian_qubit_complete (tol : Rat) (ht : 0 < tol) (a : Op) (n : Nat) (wa : Dict.WF a)
    (hc : ∀ e ∈ a, PauliCanonical e.1) (hb : ∀ e ∈ a, ∀ f ∈ e.1, f.1 < n)
    (hh : ∀ s t, Spec.melQ a t s = (Spec.melQ a s t).conj) : isHermitianQubit tol a = true := by
  rw [is_hermitian_qubit_termwise tol a wa]
  intro e he
  rw [(is_hermitian_qubit_iff_real a n wa hc hb).1 hh e he, closeRel_eq]
  have := coefClose_refl tol ht e.2
  simpa [Spec.C02.coefClose] using this

/-! ## `MajoranaOperator.commutes_with`, general path -/

/-- **Majorana canonicity**: the strings `γ_S` (`S` strictly increasing, all modes `< n`) act
linearly independently on the `2^n` Fock basis states (trace orthogonality: for `S ≠ T` the
summands of `tr(γ_S† γ_T)` vanish or cancel under `s ↦ s ⊕ 2^j`). -/
theorem majorana_strings_independent (D : MOp) (n : Nat) (hg : MajGood n D)
    (hz : ∀ s t, s < 2 ^ n → melM D t s = 0) : ∀ e ∈ D, e.2 = 0 :=
  maj_independent D n hg hz

/-- FULL STATEMENT: `self * other == other * self` is True iff the operators commute in the Spec.
Proved under the explicit exact-regime hypothesis `hexact` (coefficients of the two product
dictionaries that numpy.isclose calls close are equal — decidable on every instance, true for
dyadic inputs): then the coded test is True iff `A·B` and `B·A` (the Model products, whose
matrix elements are the products of the denoted operators by C01 `mul_hom_majorana`) have the same
Spec matrix elements on all `2^n` basis states. -/
theorem commutes_with_general_iff_partial (atol rtol : Rat) (ha : 0 ≤ atol) (n : Nat) (a b : MOp)
    (sa : ∀ e ∈ a, e.1.Pairwise (· < ·) ∧ ∀ m ∈ e.1, m < 2 * n)
    (sb : ∀ e ∈ b, e.1.Pairwise (· < ·) ∧ ∀ m ∈ e.1, m < 2 * n)
    (hexact : ∀ t, Spec.C02.majCoefClose atol rtol (Dict.get? (mmul a b) t) (Dict.get? (mmul b a) t) = true →
      Dict.getD (mmul a b) t 0 = Dict.getD (mmul b a) t 0) :
    majEq atol rtol (mmul a b) (mmul b a) = true ↔
      ∀ s t, s < 2 ^ n → melM (mmul a b) t s = melM (mmul b a) t s :=
  commutes_general_iff atol rtol ha n a b sa sb hexact

/-- full-strength form of the previous theorem: the exact-regime hypothesis is the decidable test
`majExactB` that the driver evaluates on every generated input (`exact_regime` in the answer of
`c02.commutes`; the harness counts the inputs on which it holds): under it,
`self * other == other * self` is True iff the two products have the same Spec matrix elements. -/
theorem commutes_with_general_iff (atol rtol : Rat) (ha : 0 ≤ atol) (n : Nat) (a b : MOp)
    (sa : ∀ e ∈ a, e.1.Pairwise (· < ·) ∧ ∀ m ∈ e.1, m < 2 * n)
    (sb : ∀ e ∈ b, e.1.Pairwise (· < ·) ∧ ∀ m ∈ e.1, m < 2 * n)
    (hx : majExactB atol rtol (mmul a b) (mmul b a) = true) :
    majEq atol rtol (mmul a b) (mmul b a) = true ↔
      ∀ s t, s < 2 ^ n → melM (mmul a b) t s = melM (mmul b a) t s :=
  commutes_general_iff_exactB atol rtol ha n a b sa sb hx

/-! ## `is_hermitian(InteractionOperator)` -/

/-- FULL STATEMENT: `is_hermitian(InteractionOperator)` is True iff the denoted operator is
Hermitian.  Proved: the soundness direction in the exact regime (`hexact`: entries of the two normal-ordered
tensor families that are closer than the tolerance are equal — decidable on the instance, true
for dyadic tensors) — if the coded test (normal-ordered tensors of the operator and of
`hermitian_conjugated(operator)` compared with `PolynomialTensor.__eq__`) is True, the operator
`c + Σ one[p,q] a†_p a_q + Σ two[p,q,r,s] a†_p a†_q a_r a_s` equals its formal adjoint (conjugated
constant, `T.conj()` tensors) in EVERY algebra satisfying the CAR.  The completeness direction
(every Hermitian operator is recognised whatever the storage of its two-body tensor — the
direction of the seeded entry-wise-comparison defect) needs the canonicity of the normal tensor
form and is covered by the `is-hermitian-interaction` oracle stream only. -/
theorem is_hermitian_io_sound_partial {A : Type} [Ring A] (I : Proofs.C03.Interp A)
    (car_same : ∀ x l : Factor, x.2 = l.2 → x.1 ≠ l.1 → I.g l * I.g x + I.g x * I.g l = 0)
    (car_sq : ∀ x l : Factor, x.2 = l.2 → x.1 = l.1 → I.g l * I.g x = 0)
    (tol : Rat) (n : Nat) (c : GQ) (one two : List GQ) (hlen : one.length = n * n)
    (hexact : ∀ k i,
      (Spec.C02.entry (ioNormalTensors n c one two) k i -
        Spec.C02.entry (ioNormalTensors n c.conj (hcOneBody n one) (hcTwoBody n two)) k i).normSq < tol * tol →
      Spec.C02.entry (ioNormalTensors n c one two) k i =
        Spec.C02.entry (ioNormalTensors n c.conj (hcOneBody n one) (hcTwoBody n two)) k i)
    (h : isHermitianIO tol n c one two = true) :
    Proofs.C03.denIO I n c one two =
      Proofs.C03.denIO I n c.conj (hcOneBody n one) (hcTwoBody n two) :=
  Proofs.C03.isHermitianIO_sound I car_same car_sq tol n c one two hlen hexact h

/-- the same soundness statement under the decidable per-input test `ioExactB` that the driver
evaluates on every generated InteractionOperator (`exact_regime` in the answer of
`c02.hermitian_io`; the harness counts it). -/
theorem is_hermitian_io_sound {A : Type} [Ring A] (I : Proofs.C03.Interp A)
    (car_same : ∀ x l : Factor, x.2 = l.2 → x.1 ≠ l.1 → I.g l * I.g x + I.g x * I.g l = 0)
    (car_sq : ∀ x l : Factor, x.2 = l.2 → x.1 = l.1 → I.g l * I.g x = 0)
    (tol : Rat) (n : Nat) (c : GQ) (one two : List GQ) (hlen : one.length = n * n)
    (hx : ioExactB tol n c one two = true) (h : isHermitianIO tol n c one two = true) :
    Proofs.C03.denIO I n c one two =
      Proofs.C03.denIO I n c.conj (hcOneBody n one) (hcTwoBody n two) :=
  Proofs.C03.isHermitianIO_sound I car_same car_sq tol n c one two hlen
    (Proofs.C03.hexact_of_ioExactB tol n c one two hlen hx) h

/-! ## `is_hermitian` / `hermitian_conjugated` on dense and sparse matrices -/

/-- `hermitian_conjugated(M)[p, q] = conj M[q, p]` (flattened `n × n` matrix, all `p, q < n`). -/
theorem hermitian_conjugated_matrix_entry (n : Nat) (M : List GQ) (p q : Nat) (hp : p < n) (hq : q < n) :
    (hcMatrix n M).getD (p * n + q) 0 = (M.getD (q * n + p) 0).conj :=
  getD_hcMatrix n M p q hp hq

/-- **`is_hermitian(matrix)`** (`max |M - M†| < EQ_TOLERANCE`, dense or sparse) is True exactly
when every entry satisfies `|M[p,q] - conj M[q,p]| < tol` — for every size and every matrix. -/
theorem is_hermitian_matrix_iff (tol : Rat) (n : Nat) (M : List GQ) (hlen : M.length = n * n) :
    isHermitianMatrix tol n M = true ↔
      (0 < tol ∧ ∀ p q, p < n → q < n →
        (M.getD (p * n + q) 0 - (M.getD (q * n + p) 0).conj).normSq < tol * tol) :=
  isHermitianMatrix_iff tol n M hlen

end OFV.C02
