/-
C03 — property theorems: normal ordering only rewrites the operator, and its result is in
normal order.  Helper lemmas: OFV/Proofs/C03.lean (soundness), OFV/Proofs/C03Normal.lean (order).

Denotation.  `Interp A` interprets coefficients (`ι`, additive and central) and factors (`g`)
in an arbitrary ring `A`; a term denotes the product of its factors, a dictionary the sum of
`ι c · ⟦t⟧`.  Soundness is proved for EVERY ring and EVERY interpretation satisfying the
defining relations (CAR / CCR / [q,p] = iħ), hence in particular for the Fock / polynomial
representations of OFV.Spec (that those satisfy the relations is checked by `spec.eq` on every
generated case; it is not yet a theorem — see OPEN_STATEMENTS).
The soundness theorems are about the Model run with tolerance 0 (`+=` never deletes); with
`EQ_TOLERANCE` the code additionally drops sums with |c| < 1e-8, which are exact zeros on the
inputs of the correspondence run (exact regime).  The order theorems hold for every tolerance.
-/
import OFV.Proofs.C03
import OFV.Proofs.C03Normal
import OFV.Proofs.C03Spec
import OFV.Proofs.C03Fock
import OFV.Proofs.C03Valid
import OFV.Proofs.C03Chemist
import OFV.Proofs.C03WeylSpec
import OFV.Proofs.C03Canon3
import OFV.Proofs.C03Exact
import OFV.Proofs.C03Exact2
import OFV.Proofs.C03ReorderQubit
import OFV.Proofs.C03Main
import OFV.Proofs.C03Boson
import OFV.Proofs.C03Tensor
import OFV.Proofs.C03WeylMain
import Mathlib.Tactic.NormNum

namespace OFV.C03
open OFV OFV.Model OFV.Model.C03 OFV.Proofs.C03

variable {A : Type} [Ring A]

/-! ## soundness: `normal_ordered(op)` denotes the same operator -/

/-- `normal_ordered_ladder_term` / `normal_ordered_quad_term`: the returned dictionary denotes
`c · ⟦t⟧`, for every term (any length, repeated modes, any interleaving) — by induction over the
recursion fuel, the outer and the inner loop (invariant: accumulated + c·current = c₀·input). -/
theorem normal_ordered_term_sound (I : Interp A) (k : Kind) (R : Relations I k) (t : Term) (c : GQ) :
    I.evalOp (noTerm 0 k t c) = I.ι c * I.evalT t :=
  noTerm_sound I k R t c

/-- `normal_ordered(operator)` denotes the same operator. -/
theorem normal_ordered_sound (I : Interp A) (k : Kind) (R : Relations I k) (a : Op) :
    I.evalOp (normalOrdered 0 k a) = I.evalOp a :=
  normalOrdered_sound I k R a

/-- fermions: the canonical anticommutation relations are all that is used. -/
theorem normal_ordered_sound_fermion (I : Interp A)
    (car_mixed : ∀ x l : Factor, x.2 ≠ 0 → l.2 = 0 →
      I.g l * I.g x + I.g x * I.g l = if x.1 = l.1 then 1 else 0)
    (car_same : ∀ x l : Factor, x.2 = l.2 → x.1 ≠ l.1 → I.g l * I.g x + I.g x * I.g l = 0)
    (car_sq : ∀ x l : Factor, x.2 = l.2 → x.1 = l.1 → I.g l * I.g x = 0) (a : Op) :
    I.evalOp (normalOrdered 0 .fermion a) = I.evalOp a :=
  normalOrdered_sound I .fermion (relations_fermion I car_mixed car_same car_sq) a

/-- bosons: `[b_i, b_j^†] = δ_ij`, everything else commutes. -/
theorem normal_ordered_sound_boson (I : Interp A)
    (comm_diff : ∀ f h : Factor, f.1 ≠ h.1 → I.g f * I.g h = I.g h * I.g f)
    (ccr : ∀ x l : Factor, x.2 ≠ 0 → l.2 = 0 → x.1 = l.1 → I.g l * I.g x = I.g x * I.g l + 1)
    (comm_same : ∀ x l : Factor, x.2 = l.2 → I.g l * I.g x = I.g x * I.g l) (a : Op) :
    I.evalOp (normalOrdered 0 .boson a) = I.evalOp a :=
  normalOrdered_sound I .boson (relations_boson I comm_diff ccr comm_same) a

/-- quadratures, EVERY `ħ` (the recursive call passes `hbar` on: commit 74c40582):
`p_i q_i = q_i p_i - iħ`, everything else commutes. -/
theorem quad_sound_hbar (I : Interp A) (hbar : GQ)
    (ι_mul : ∀ a b, I.ι (a * b) = I.ι a * I.ι b)
    (comm_diff : ∀ f h : Factor, f.1 ≠ h.1 → I.g f * I.g h = I.g h * I.g f)
    (pq : ∀ x l : Factor, x.2 = 0 → l.2 ≠ 0 → x.1 = l.1 →
      I.g l * I.g x = I.g x * I.g l + I.ι ((-1) * GQ.I * hbar))
    (comm_same : ∀ x l : Factor, x.2 = l.2 → I.g l * I.g x = I.g x * I.g l) (a : Op) :
    I.evalOp (normalOrdered 0 (.quad hbar) a) = I.evalOp a :=
  normalOrdered_sound I (.quad hbar) (relations_quad I hbar ι_mul comm_diff pq comm_same) a

/-! ## the result is in normal order (every tolerance) -/

/-- `is_normal_ordered(normal_ordered(op))` for every FermionOperator: every term of the result
passes the adjacent-pair test of `FermionOperator.is_normal_ordered` (which C02 proves equal to
the all-pairs definition). -/
theorem normal_ordered_is_normal_fermion (tol : Rat) (a : Op) :
    Model.C02.fermionIsNormalOrdered (normalOrdered tol .fermion a) = true := by
  have h := normalOrdered_norm tol .fermion (fun t => Proofs.C02.Adj (okK .fermion) t) (fun t ht => ht) a
  unfold Model.C02.fermionIsNormalOrdered
  rw [List.all_eq_true]
  intro e he
  have hb : Model.C02.loopBad Model.C02.fermionBadPair e.1 = false := by
    rw [Proofs.C02.loopBad_false_iff_adj]
    exact Proofs.C02.adj_mono _ _ (fun l r hlr => okK_fermion_not_bad l r hlr) e.1 (h e he)
  obtain ⟨t, c⟩ := e
  simpa using hb

/-- `is_normal_ordered(normal_ordered(op))` for every BosonOperator (valid action codes): the
bubble sort leaves no annihilator left of a creator, and the stable index sort of the
`BosonOperator` constructor keeps creators left of annihilators on every mode. -/
theorem normal_ordered_is_normal_boson (tol : Rat) (a : Op) (hv : ∀ e ∈ a, ∀ f ∈ e.1, f.2 < 2) :
    Model.C02.bosonIsNormalOrdered (normalOrdered tol .boson a) = true :=
  normalOrdered_boson_isNormal tol a hv

/-- A normal-ordered fermion term is a fixed point: `normal_ordered_ladder_term(t, c)` is the
single term `{t: c}` (unless `|c| < tol`, which `+=` deletes). -/
theorem normal_ordered_fixed_point_fermion (tol : Rat) (t : Term) (c : GQ)
    (hn : Model.C02.loopBad Model.C02.fermionBadPair t = false) (hc : GQ.isSmall tol c = false) :
    noTerm tol .fermion t c = [(t, c)] := by
  have ha : Proofs.C02.Adj (okK .fermion) t := by
    rw [Proofs.C02.loopBad_false_iff_adj] at hn
    exact Proofs.C02.adj_mono _ _ (fun l r h => not_bad_okK_fermion l r h) t hn
  unfold noTerm noTermFuel
  have := outer_fixed tol .fermion (noTermFuel tol .fermion t.length) t [] c [] trivial
    (by intro l x hl; simp at hl) ha
  simp only [List.reverse_nil, List.nil_append] at this
  rw [this]
  have e1 : c * 1 = c := gq_mul_one c
  simp [iadd, mk, Kind.cls, simplify, Dict.getD, Dict.get?, Dict.set, e1, Interp.gq_zero_add, hc]

-- non-vacuity: a normal-ordered term of length 4 with coefficient 1/2 and EQ_TOLERANCE-like tol
example : noTerm (1 / 100000000) .fermion [(2, 1), (0, 1), (3, 0), (1, 0)] ⟨1 / 2, 0⟩ =
    [([(2, 1), (0, 1), (3, 0), (1, 0)], ⟨1 / 2, 0⟩)] := by
  apply normal_ordered_fixed_point_fermion
  · decide
  · simp [GQ.isSmall, GQ.normSq]; norm_num

/-- idempotence, term-wise: every term of a normal-ordered FermionOperator is returned unchanged
by a second normal ordering. -/
theorem normal_ordered_idempotent_terms (tol : Rat) (a : Op) (e : Term × GQ)
    (he : e ∈ normalOrdered tol .fermion a) (hc : GQ.isSmall tol e.2 = false) :
    noTerm tol .fermion e.1 e.2 = [(e.1, e.2)] := by
  apply normal_ordered_fixed_point_fermion tol e.1 e.2 _ hc
  have h := normal_ordered_is_normal_fermion tol a
  unfold Model.C02.fermionIsNormalOrdered at h
  rw [List.all_eq_true] at h
  have := h e he
  obtain ⟨t, c⟩ := e
  simpa using this

/-- `is_normal_ordered` characterises the fixed points: a fermion term with a non-negligible
coefficient is normal ordered iff normal ordering returns it unchanged. -/
theorem is_normal_ordered_iff_fixed_point (tol : Rat) (t : Term) (c : GQ) (hc : GQ.isSmall tol c = false) :
    Model.C02.fermionIsNormalOrdered [(t, c)] = true ↔ normalOrdered tol .fermion [(t, c)] = [(t, c)] := by
  have hno : normalOrdered tol .fermion [(t, c)] = iadd tol [] (noTerm tol .fermion t c) := by
    simp [normalOrdered]
  constructor
  · intro h
    have hb : Model.C02.loopBad Model.C02.fermionBadPair t = false := by
      simpa [Model.C02.fermionIsNormalOrdered] using h
    rw [hno, normal_ordered_fixed_point_fermion tol t c hb hc]
    simp [iadd, Dict.getD, Dict.get?, Dict.set, Interp.gq_zero_add, hc]
  · intro h
    have := normal_ordered_is_normal_fermion tol [(t, c)]
    rwa [h] at this

/-! ## the fermionic Spec satisfies the CAR (hypotheses of `normal_ordered_sound_fermion`)

State by state, for the reference semantics `OFV.Spec.actF` that the oracle evaluates.  (The
packaging of these facts as a ring interpretation — linear extension to formal sums — is not
formalised; see OPEN_STATEMENTS.) -/

/-- `a_j a_j^† + a_j^† a_j = 1` on every Fock basis state. -/
theorem spec_car_same_mode (j s : Nat) :
    Spec.actFTerm [(j, 0), (j, 1)] s = (if s.testBit j then none else some (0, s)) ∧
    Spec.actFTerm [(j, 1), (j, 0)] s = (if s.testBit j then some (0, s) else none) :=
  Proofs.C03.spec_car_same_mode j s

/-- `a_j a_j = 0 = a_j^† a_j^†` on every Fock basis state. -/
theorem spec_car_square (j a s : Nat) : Spec.actFTerm [(j, a), (j, a)] s = none :=
  Proofs.C03.spec_car_square j a s

/-- ladder operators of different modes anticommute on every Fock basis state: both orders
vanish together, or reach the same state with opposite signs. -/
theorem spec_car_diff_modes (i j a b s : Nat) (hij : i ≠ j) :
    match Spec.actFTerm [(i, a), (j, b)] s, Spec.actFTerm [(j, b), (i, a)] s with
    | some (k1, s1), some (k2, s2) => s1 = s2 ∧ k1 ≠ k2 ∧ k1 < 2 ∧ k2 < 2
    | none, none => True
    | _, _ => False :=
  Proofs.C03.spec_car_diff_modes i j a b s hij

/-! ## soundness against the fermionic Spec itself (Fock space)

`fockInterp` lifts `Spec.actF` to `Module.End GQ (ℕ →₀ GQ)` (free module over Fock basis
states); it satisfies the CAR (`fock_car_*`, from the state-by-state facts above), so the
abstract theorem applies; `fock_evalOp_melF` identifies the lifted denotation with the executable
matrix element `Spec.melF` that the oracle evaluates. -/

/-- `normal_ordered(op)` and `op` denote the same endomorphism of Fock space. -/
theorem normal_ordered_sound_fock (a : Op) :
    fockInterp.evalOp (normalOrdered 0 .fermion a) = fockInterp.evalOp a :=
  normalOrdered_sound fockInterp .fermion
    (relations_fermion fockInterp fock_car_mixed fock_car_same fock_car_sq) a

/-- … hence all matrix elements of the executable Spec agree: for every FermionOperator with
action codes 0 / 1, every pair of Fock basis states `s`, `out`:
`⟨out| normal_ordered(A) |s⟩ = ⟨out| A |s⟩` (this is exactly what `spec.eq` tests, for ALL
inputs and all states). -/
theorem normal_ordered_sound_melF (a : Op) (hv : ∀ e ∈ a, ∀ f ∈ e.1, f.2 < 2) (out s : Nat) :
    Spec.melF (normalOrdered 0 .fermion a) out s = Spec.melF a out s := by
  have hv' : ∀ e ∈ normalOrdered 0 .fermion a, ∀ f ∈ e.1, f.2 < 2 :=
    normalOrdered_valid 0 .fermion (fun f => f.2 < 2) (fun t ht => ht) a hv
  rw [← fock_evalOp_melF _ hv', ← fock_evalOp_melF _ hv, normal_ordered_sound_fock]

/-! ## soundness against the bosonic / quadrature Spec itself (polynomial representation)

`weylInterp` lifts the local exponent rules of `Spec.actB` / `Spec.actQuad` (`b_j^† = x_j·`,
`b_j = ∂_j`; `q_j = x_j·`, `p_j = -iħ ∂_j`) to endomorphisms of the free module over occupation
functions; it satisfies the CCR / `[q, p] = iħ` (`weyl_ccr`, `weyl_pq`), and its coefficients are
those of the executable `Spec.applyOp` on canonical exponent vectors (`weyl_evalOp_apply`). -/

/-- bosons: every coefficient of `normal_ordered(A)·x^s` equals that of `A·x^s` (all canonical
exponent vectors `s`, `out`; action codes 0 / 1) — what `spec.eq` tests, for ALL inputs. -/
theorem normal_ordered_sound_boson_spec (a : Op) (hv : ∀ e ∈ a, ∀ f ∈ e.1, f.2 < 2)
    (s out : Spec.Mono) (hs : Trimmed s) (ho : Trimmed out) :
    Spec.GV.coeff (Spec.applyOp .boson (normalOrdered 0 .boson a) s) out =
      Spec.GV.coeff (Spec.applyOp .boson a s) out :=
  normalOrdered_sound_boson_spec a hv s out hs ho

/-- quadratures, EVERY `ħ`: same statement for `normal_ordered(A, hbar)` in the Schrödinger
representation `p = -iħ ∂` (the nested-contraction defect F03 would falsify it for `ħ ≠ 1`). -/
theorem quad_sound_hbar_spec (hbar : GQ) (a : Op) (s out : Spec.Mono) (hs : Trimmed s) (ho : Trimmed out) :
    Spec.GV.coeff (Spec.applyOp (.quad hbar) (normalOrdered 0 (.quad hbar) a) s) out =
      Spec.GV.coeff (Spec.applyOp (.quad hbar) a s) out :=
  normalOrdered_sound_quad_spec hbar a s out hs ho

/-! ## canonicity (fermions): the normal-ordered form is unique -/

/-- **Normal-ordered monomials are linearly independent**: two dictionaries of distinct, valid,
normal-ordered fermion terms with the same Spec matrix elements on all pairs of Fock basis states
have the same coefficient for every term (missing = 0).  Proof: among the terms with different
coefficients take one whose annihilator mask is numerically minimal and evaluate on the state
occupying exactly its annihilated modes. -/
theorem normal_monomials_independent_fermion (A B : Op) (wa : Dict.WF A) (wb : Dict.WF B)
    (va : ∀ e ∈ A, ∀ f ∈ e.1, f.2 < 2) (vb : ∀ e ∈ B, ∀ f ∈ e.1, f.2 < 2)
    (na : ∀ e ∈ A, Spec.C02.NormalOrderedF e.1) (nb : ∀ e ∈ B, Spec.C02.NormalOrderedF e.1)
    (h : ∀ s out, Spec.melF A out s = Spec.melF B out s) :
    ∀ t, Dict.getD A t 0 = Dict.getD B t 0 :=
  canonicity_normal A B wa wb va vb na nb h

/-- the result of `normal_ordered` on a FermionOperator: distinct keys, valid codes, normal order -/
theorem normal_ordered_fermion_wellformed (tol : Rat) (a : Op) (hv : ∀ e ∈ a, ∀ f ∈ e.1, f.2 < 2) :
    Dict.WF (normalOrdered tol .fermion a) ∧
    (∀ e ∈ normalOrdered tol .fermion a, ∀ f ∈ e.1, f.2 < 2) ∧
    (∀ e ∈ normalOrdered tol .fermion a, Spec.C02.NormalOrderedF e.1) := by
  have hval := normalOrdered_valid tol .fermion (fun f => f.2 < 2) (fun t ht => ht) a hv
  refine ⟨wf_normalOrdered tol .fermion a, hval, ?_⟩
  intro e he
  have h := normalOrdered_norm tol .fermion (fun t => Proofs.C02.Adj (okK .fermion) t) (fun t ht => ht) a e he
  rw [← Proofs.C02.fermion_term_normal_iff e.1 (hval e he), Proofs.C02.loopBad_false_iff_adj]
  exact Proofs.C02.adj_mono _ _ (fun l r hlr => okK_fermion_not_bad l r hlr) e.1 h

/-- **Canonicity**: two FermionOperators denote the same operator (same Spec matrix elements on
all Fock basis states) IF AND ONLY IF their normal-ordered forms have equal coefficients. -/
theorem canonicity_fermion (a b : Op) (va : ∀ e ∈ a, ∀ f ∈ e.1, f.2 < 2) (vb : ∀ e ∈ b, ∀ f ∈ e.1, f.2 < 2) :
    (∀ s out, Spec.melF a out s = Spec.melF b out s) ↔
      ∀ t, Dict.getD (normalOrdered 0 .fermion a) t 0 = Dict.getD (normalOrdered 0 .fermion b) t 0 := by
  obtain ⟨wa, va', na⟩ := normal_ordered_fermion_wellformed 0 a va
  obtain ⟨wb, vb', nb⟩ := normal_ordered_fermion_wellformed 0 b vb
  constructor
  · intro h
    apply canonicity_normal _ _ wa wb va' vb' na nb
    intro s out
    rw [normal_ordered_sound_melF a va, normal_ordered_sound_melF b vb, h]
  · intro h s out
    rw [← normal_ordered_sound_melF a va, ← normal_ordered_sound_melF b vb]
    exact melF_congr _ _ wa wb h out s

/-- idempotence as an operator statement: normal ordering twice gives the same coefficients. -/
theorem normal_ordered_idempotent (a : Op) (va : ∀ e ∈ a, ∀ f ∈ e.1, f.2 < 2) :
    ∀ t, Dict.getD (normalOrdered 0 .fermion (normalOrdered 0 .fermion a)) t 0 =
      Dict.getD (normalOrdered 0 .fermion a) t 0 := by
  obtain ⟨_, va', _⟩ := normal_ordered_fermion_wellformed 0 a va
  exact (canonicity_fermion (normalOrdered 0 .fermion a) a va' va).1
    (fun s out => normal_ordered_sound_melF a va out s)

/-! ## canonicity (bosons, quadratures): polynomial representation

Normal-ordered monomials `Π_j (x_j)^{m_j} (∂_j)^{n_j}` are linearly independent: among the terms
with different coefficients take one with the fewest lowering factors, `n0`, and evaluate on
`x^{n0}` (`weyl_independent`).  Exponent vectors are the canonical (`Trimmed`) ones the driver
enumerates. -/

/-- **Canonicity, bosons**: two BosonOperators have the same coefficients `⟨x^out| · |x^s⟩` in
the executable Spec for all canonical exponent vectors IF AND ONLY IF their normal-ordered
forms have equal coefficients. -/
theorem canonicity_boson (a b : Op) (va : ∀ e ∈ a, ∀ f ∈ e.1, f.2 < 2) (vb : ∀ e ∈ b, ∀ f ∈ e.1, f.2 < 2) :
    (∀ s out, Trimmed s → Trimmed out →
      Spec.GV.coeff (Spec.applyOp .boson a s) out = Spec.GV.coeff (Spec.applyOp .boson b s) out) ↔
    ∀ t, Dict.getD (normalOrdered 0 .boson a) t 0 = Dict.getD (normalOrdered 0 .boson b) t 0 :=
  canonicity_boson_iff a b va vb

/-- **Canonicity, quadratures**, for every `ħ ≠ 0`. -/
theorem canonicity_quad (hbar : GQ) (hh : hbar ≠ 0) (a b : Op)
    (va : ∀ e ∈ a, ∀ f ∈ e.1, f.2 < 2) (vb : ∀ e ∈ b, ∀ f ∈ e.1, f.2 < 2) :
    (∀ s out, Trimmed s → Trimmed out →
      Spec.GV.coeff (Spec.applyOp (.quad hbar) a s) out = Spec.GV.coeff (Spec.applyOp (.quad hbar) b s) out) ↔
    ∀ t, Dict.getD (normalOrdered 0 (.quad hbar) a) t 0 = Dict.getD (normalOrdered 0 (.quad hbar) b) t 0 :=
  canonicity_quad_iff hbar hh a b va vb

/-! ## the exact regime: the real tolerance versus tolerance 0

The theorems above are about the Model run with tolerance 0; the code (and the driver) run with
`EQ_TOLERANCE`.  On inputs whose coefficients lie on a lattice `(1/D)·ℤ[i]` with `tol·D ≤ 1`
(all dyadic inputs of the correspondence run: `D = 2^k`, `k ≤ 26` for `tol = 1e-8`) `+=` only
deletes exact zeros, and both runs return the same coefficients. -/

/-- same coefficient for every term, whatever the tolerance (`tol·D ≤ 1`). -/
theorem normal_ordered_exact_regime (D : Nat) (hD : 0 < D) (tol : Rat) (h0 : 0 ≤ tol) (h1 : tol * D ≤ 1)
    (k : Kind) (hk : LatticeKind k) (a : Op) (la : ∀ e ∈ a, Lat D e.2) :
    ∀ t, Dict.getD (normalOrdered tol k a) t 0 = Dict.getD (normalOrdered 0 k a) t 0 := by
  have hkk : ∀ c, Lat D c → Lat D (k.swapCoeff c) ∧ Lat D (k.contractCoeff c) := by
    cases k with
    | fermion => exact hk_fermion D
    | boson => exact hk_boson D
    | quad h => exact hk_quad D h hk
  have hmk : ∀ t c, Lat D c → Lat D (c * (simplify k.cls t).1) := by
    intro t c hc
    cases k <;> exact lat_mul_one D c hc
  exact (normalOrdered_sim D hD tol h0 h1 k hkk hmk a la).2.2.2.2

/-- full-strength form under the decidable per-input test `latB` that the driver evaluates on every
generated input (`lattice` in the answer of `c03.normal_ordered`; the harness counts it): the
run with the real tolerance and the run with tolerance 0 have the same coefficients, hence all
soundness / canonicity theorems transfer to the executed function on such inputs. -/
theorem normal_ordered_exact_regime_of_latB (D : Nat) (hD : 0 < D) (tol : Rat) (h0 : 0 ≤ tol) (h1 : tol * D ≤ 1)
    (k : Kind) (hk : LatticeKind k) (a : Op) (hl : latB D a = true) :
    ∀ t, Dict.getD (normalOrdered tol k a) t 0 = Dict.getD (normalOrdered 0 k a) t 0 :=
  normal_ordered_exact_regime D hD tol h0 h1 k hk a (lat_of_latB D hD a hl)

/-- quadratures with a FRACTIONAL `ħ = (p + q i)/E` (e.g. `ħ = 1/2`, `E = 2`): every contraction
refines the lattice by `E`; for terms of length `≤ K` and `tol·D·E^K ≤ 1` both runs agree. -/
theorem normal_ordered_exact_regime_quad_fractional (D E K : Nat) (hE : 0 < E) (hD : 0 < D) (tol : Rat)
    (h0 : 0 ≤ tol) (h1 : tol * ((D * E ^ K : Nat) : Rat) ≤ 1) (hbar : GQ)
    (hh : ∃ p q : Int, hbar.re = (p : Rat) / E ∧ hbar.im = (q : Rat) / E)
    (a : Op) (la : ∀ e ∈ a, Lat D e.2 ∧ e.1.length ≤ K) :
    ∀ t, Dict.getD (normalOrdered tol (.quad hbar) a) t 0 = Dict.getD (normalOrdered 0 (.quad hbar) a) t 0 :=
  (normalOrdered_sim2 D E K hE (Nat.mul_pos hD (Nat.pow_pos hE)) tol h0 h1 hbar hh a la).2.2.2.2

-- non-vacuity: ħ = 1/2, dyadic coefficients with denominator 8, terms of length ≤ 8, EQ_TOLERANCE
example : (∃ p q : Int, (⟨1 / 2, 0⟩ : GQ).re = (p : Rat) / (2 : Nat) ∧ (⟨1 / 2, 0⟩ : GQ).im = (q : Rat) / (2 : Nat)) ∧
    Generated.eqTolerance * ((8 * 2 ^ 8 : Nat) : Rat) ≤ 1 := by
  refine ⟨⟨1, 0, by norm_num, by norm_num⟩, ?_⟩
  norm_num [Generated.eqTolerance]

/-- … so soundness holds for the tolerance the code uses (fermions, lattice inputs). -/
theorem normal_ordered_sound_melF_tol (D : Nat) (hD : 0 < D) (tol : Rat) (h0 : 0 ≤ tol) (h1 : tol * D ≤ 1)
    (a : Op) (hv : ∀ e ∈ a, ∀ f ∈ e.1, f.2 < 2) (la : ∀ e ∈ a, Lat D e.2) (out s : Nat) :
    Spec.melF (normalOrdered tol .fermion a) out s = Spec.melF a out s := by
  rw [← normal_ordered_sound_melF a hv out s]
  exact melF_congr _ _ (wf_normalOrdered tol .fermion a) (wf_normalOrdered 0 .fermion a)
    (normal_ordered_exact_regime D hD tol h0 h1 .fermion trivial a la) out s

/-- bosons, the tolerance the code uses (lattice inputs): every coefficient of
`normal_ordered(A)·x^s` in the executable Spec equals that of `A·x^s`. -/
theorem normal_ordered_sound_boson_spec_tol (D : Nat) (hD : 0 < D) (tol : Rat) (h0 : 0 ≤ tol) (h1 : tol * D ≤ 1)
    (a : Op) (hv : ∀ e ∈ a, ∀ f ∈ e.1, f.2 < 2) (la : ∀ e ∈ a, Lat D e.2)
    (s out : Spec.Mono) (hs : Trimmed s) (ho : Trimmed out) :
    Spec.GV.coeff (Spec.applyOp .boson (normalOrdered tol .boson a) s) out =
      Spec.GV.coeff (Spec.applyOp .boson a s) out := by
  rw [← normal_ordered_sound_boson_spec a hv s out hs ho]
  exact applyOp_coeff_congr .boson Spec.actB (fun _ _ => rfl) _ _
    (wf_normalOrdered tol .boson a) (wf_normalOrdered 0 .boson a)
    (normal_ordered_exact_regime D hD tol h0 h1 .boson trivial a la) s out

/-- quadratures with Gaussian-integer `ħ`, the tolerance the code uses (lattice inputs). -/
theorem quad_sound_hbar_spec_tol (D : Nat) (hD : 0 < D) (tol : Rat) (h0 : 0 ≤ tol) (h1 : tol * D ≤ 1)
    (hbar : GQ) (hh : ∃ p q : Int, hbar.re = p ∧ hbar.im = q) (a : Op) (la : ∀ e ∈ a, Lat D e.2)
    (s out : Spec.Mono) (hs : Trimmed s) (ho : Trimmed out) :
    Spec.GV.coeff (Spec.applyOp (.quad hbar) (normalOrdered tol (.quad hbar) a) s) out =
      Spec.GV.coeff (Spec.applyOp (.quad hbar) a s) out := by
  rw [← quad_sound_hbar_spec hbar a s out hs ho]
  exact applyOp_coeff_congr (.quad hbar) (Spec.actQuad hbar) (fun _ _ => rfl) _ _
    (wf_normalOrdered tol (.quad hbar) a) (wf_normalOrdered 0 (.quad hbar) a)
    (normal_ordered_exact_regime D hD tol h0 h1 (.quad hbar) hh a la) s out

/-- quadratures with a fractional `ħ = (p + q i)/E` (e.g. 1/2), the tolerance the code uses. -/
theorem quad_sound_hbar_spec_tol_fractional (D E K : Nat) (hE : 0 < E) (hD : 0 < D) (tol : Rat)
    (h0 : 0 ≤ tol) (h1 : tol * ((D * E ^ K : Nat) : Rat) ≤ 1) (hbar : GQ)
    (hh : ∃ p q : Int, hbar.re = (p : Rat) / E ∧ hbar.im = (q : Rat) / E)
    (a : Op) (la : ∀ e ∈ a, Lat D e.2 ∧ e.1.length ≤ K)
    (s out : Spec.Mono) (hs : Trimmed s) (ho : Trimmed out) :
    Spec.GV.coeff (Spec.applyOp (.quad hbar) (normalOrdered tol (.quad hbar) a) s) out =
      Spec.GV.coeff (Spec.applyOp (.quad hbar) a s) out := by
  rw [← quad_sound_hbar_spec hbar a s out hs ho]
  exact applyOp_coeff_congr (.quad hbar) (Spec.actQuad hbar) (fun _ _ => rfl) _ _
    (wf_normalOrdered tol (.quad hbar) a) (wf_normalOrdered 0 (.quad hbar) a)
    (normal_ordered_exact_regime_quad_fractional D E K hE hD tol h0 h1 hbar hh a la) s out

/-- **canonicity at the tolerance the code uses** (fermions, lattice inputs): two FermionOperators
denote the same operator iff the dictionaries the executed `normal_ordered` returns have equal
coefficients. -/
theorem canonicity_fermion_tol (D : Nat) (hD : 0 < D) (tol : Rat) (h0 : 0 ≤ tol) (h1 : tol * D ≤ 1)
    (a b : Op) (va : ∀ e ∈ a, ∀ f ∈ e.1, f.2 < 2) (vb : ∀ e ∈ b, ∀ f ∈ e.1, f.2 < 2)
    (la : ∀ e ∈ a, Lat D e.2) (lb : ∀ e ∈ b, Lat D e.2) :
    (∀ s out, Spec.melF a out s = Spec.melF b out s) ↔
      ∀ t, Dict.getD (normalOrdered tol .fermion a) t 0 = Dict.getD (normalOrdered tol .fermion b) t 0 := by
  rw [canonicity_fermion a b va vb]
  have ea := normal_ordered_exact_regime D hD tol h0 h1 .fermion trivial a la
  have eb := normal_ordered_exact_regime D hD tol h0 h1 .fermion trivial b lb
  constructor
  · intro h t; rw [ea t, eb t]; exact h t
  · intro h t; rw [← ea t, ← eb t]; exact h t

/-- canonicity at the tolerance the code uses, bosons. -/
theorem canonicity_boson_tol (D : Nat) (hD : 0 < D) (tol : Rat) (h0 : 0 ≤ tol) (h1 : tol * D ≤ 1)
    (a b : Op) (va : ∀ e ∈ a, ∀ f ∈ e.1, f.2 < 2) (vb : ∀ e ∈ b, ∀ f ∈ e.1, f.2 < 2)
    (la : ∀ e ∈ a, Lat D e.2) (lb : ∀ e ∈ b, Lat D e.2) :
    (∀ s out, Trimmed s → Trimmed out →
      Spec.GV.coeff (Spec.applyOp .boson a s) out = Spec.GV.coeff (Spec.applyOp .boson b s) out) ↔
      ∀ t, Dict.getD (normalOrdered tol .boson a) t 0 = Dict.getD (normalOrdered tol .boson b) t 0 := by
  rw [canonicity_boson a b va vb]
  have ea := normal_ordered_exact_regime D hD tol h0 h1 .boson trivial a la
  have eb := normal_ordered_exact_regime D hD tol h0 h1 .boson trivial b lb
  constructor
  · intro h t; rw [ea t, eb t]; exact h t
  · intro h t; rw [← ea t, ← eb t]; exact h t

/-- canonicity at the tolerance the code uses, quadratures with a Gaussian-integer `ħ ≠ 0`
(the default `ħ = 1`, and 2, 8, …). -/
theorem canonicity_quad_tol (D : Nat) (hD : 0 < D) (tol : Rat) (h0 : 0 ≤ tol) (h1 : tol * D ≤ 1)
    (hbar : GQ) (hh : hbar ≠ 0) (hk : LatticeKind (.quad hbar))
    (a b : Op) (va : ∀ e ∈ a, ∀ f ∈ e.1, f.2 < 2) (vb : ∀ e ∈ b, ∀ f ∈ e.1, f.2 < 2)
    (la : ∀ e ∈ a, Lat D e.2) (lb : ∀ e ∈ b, Lat D e.2) :
    (∀ s out, Trimmed s → Trimmed out →
      Spec.GV.coeff (Spec.applyOp (.quad hbar) a s) out = Spec.GV.coeff (Spec.applyOp (.quad hbar) b s) out) ↔
      ∀ t, Dict.getD (normalOrdered tol (.quad hbar) a) t 0 =
        Dict.getD (normalOrdered tol (.quad hbar) b) t 0 := by
  rw [canonicity_quad hbar hh a b va vb]
  have ea := normal_ordered_exact_regime D hD tol h0 h1 (.quad hbar) hk a la
  have eb := normal_ordered_exact_regime D hD tol h0 h1 (.quad hbar) hk b lb
  constructor
  · intro h t; rw [ea t, eb t]; exact h t
  · intro h t; rw [← ea t, ← eb t]; exact h t

/-- canonicity at the tolerance the code uses, quadratures with a FRACTIONAL `ħ = (p + q i)/E ≠ 0`
(e.g. `ħ = 1/2`), terms of length `≤ K`, `tol·D·E^K ≤ 1`. -/
theorem canonicity_quad_tol_fractional (D E K : Nat) (hE : 0 < E) (hD : 0 < D) (tol : Rat)
    (h0 : 0 ≤ tol) (h1 : tol * ((D * E ^ K : Nat) : Rat) ≤ 1) (hbar : GQ) (hne : hbar ≠ 0)
    (hh : ∃ p q : Int, hbar.re = (p : Rat) / E ∧ hbar.im = (q : Rat) / E)
    (a b : Op) (va : ∀ e ∈ a, ∀ f ∈ e.1, f.2 < 2) (vb : ∀ e ∈ b, ∀ f ∈ e.1, f.2 < 2)
    (la : ∀ e ∈ a, Lat D e.2 ∧ e.1.length ≤ K) (lb : ∀ e ∈ b, Lat D e.2 ∧ e.1.length ≤ K) :
    (∀ s out, Trimmed s → Trimmed out →
      Spec.GV.coeff (Spec.applyOp (.quad hbar) a s) out = Spec.GV.coeff (Spec.applyOp (.quad hbar) b s) out) ↔
      ∀ t, Dict.getD (normalOrdered tol (.quad hbar) a) t 0 =
        Dict.getD (normalOrdered tol (.quad hbar) b) t 0 := by
  rw [canonicity_quad hbar hne a b va vb]
  have ea := normal_ordered_exact_regime_quad_fractional D E K hE hD tol h0 h1 hbar hh a la
  have eb := normal_ordered_exact_regime_quad_fractional D E K hE hD tol h0 h1 hbar hh b lb
  constructor
  · intro h t; rw [ea t, eb t]; exact h t
  · intro h t; rw [← ea t, ← eb t]; exact h t

/-- the executed `normal_ordered` keeps lattice inputs on the lattice (so its result is again an
admissible input of the exact-regime theorems). -/
theorem normal_ordered_lattice_closed (D : Nat) (hD : 0 < D) (tol : Rat) (h0 : 0 ≤ tol) (h1 : tol * D ≤ 1)
    (k : Kind) (hk : LatticeKind k) (a : Op) (la : ∀ e ∈ a, Lat D e.2) :
    ∀ e ∈ normalOrdered tol k a, Lat D e.2 := by
  have hkk : ∀ c, Lat D c → Lat D (k.swapCoeff c) ∧ Lat D (k.contractCoeff c) := by
    cases k with
    | fermion => exact hk_fermion D
    | boson => exact hk_boson D
    | quad h => exact hk_quad D h hk
  have hmk : ∀ t c, Lat D c → Lat D (c * (simplify k.cls t).1) := by
    intro t c hc
    cases k <;> exact lat_mul_one D c hc
  exact (normalOrdered_sim D hD tol h0 h1 k hkk hmk a la).2.2.1

/-- **idempotence of the executed function** (fermions, lattice inputs, the tolerance the code
uses): `normal_ordered(normal_ordered(A))` has the coefficients of `normal_ordered(A)`. -/
theorem normal_ordered_idempotent_tol (D : Nat) (hD : 0 < D) (tol : Rat) (h0 : 0 ≤ tol) (h1 : tol * D ≤ 1)
    (a : Op) (va : ∀ e ∈ a, ∀ f ∈ e.1, f.2 < 2) (la : ∀ e ∈ a, Lat D e.2) :
    ∀ t, Dict.getD (normalOrdered tol .fermion (normalOrdered tol .fermion a)) t 0 =
      Dict.getD (normalOrdered tol .fermion a) t 0 := by
  obtain ⟨wa', va', _⟩ := normal_ordered_fermion_wellformed tol a va
  have la' := normal_ordered_lattice_closed D hD tol h0 h1 .fermion trivial a la
  have ea := normal_ordered_exact_regime D hD tol h0 h1 .fermion trivial a la
  intro t
  rw [normal_ordered_exact_regime D hD tol h0 h1 .fermion trivial _ la' t, ea t,
    ← normal_ordered_idempotent a va t]
  obtain ⟨wa0, va0, _⟩ := normal_ordered_fermion_wellformed 0 a va
  exact (canonicity_fermion _ _ va' va0).1
    (fun s out => melF_congr _ _ wa' wa0 ea out s) t

/-- idempotence, bosons (tolerance 0, ALL inputs with action codes 0 / 1). -/
theorem normal_ordered_idempotent_boson (a : Op) (va : ∀ e ∈ a, ∀ f ∈ e.1, f.2 < 2) :
    ∀ t, Dict.getD (normalOrdered 0 .boson (normalOrdered 0 .boson a)) t 0 =
      Dict.getD (normalOrdered 0 .boson a) t 0 :=
  (canonicity_boson _ a (normalOrdered_valid_sorted 0 .boson (Or.inl rfl) a va) va).1
    (fun s out hs ho => normal_ordered_sound_boson_spec a va s out hs ho)

/-- idempotence, quadratures (tolerance 0, every `ħ ≠ 0`, ALL inputs with action codes 0 / 1). -/
theorem normal_ordered_idempotent_quad (hbar : GQ) (hh : hbar ≠ 0) (a : Op)
    (va : ∀ e ∈ a, ∀ f ∈ e.1, f.2 < 2) :
    ∀ t, Dict.getD (normalOrdered 0 (.quad hbar) (normalOrdered 0 (.quad hbar) a)) t 0 =
      Dict.getD (normalOrdered 0 (.quad hbar) a) t 0 :=
  (canonicity_quad hbar hh _ a (normalOrdered_valid_sorted 0 (.quad hbar) (Or.inr rfl) a va) va).1
    (fun s out hs ho => quad_sound_hbar_spec hbar a s out hs ho)

/-- idempotence of the executed function, bosons (lattice inputs, the tolerance the code uses). -/
theorem normal_ordered_idempotent_boson_tol (D : Nat) (hD : 0 < D) (tol : Rat) (h0 : 0 ≤ tol) (h1 : tol * D ≤ 1)
    (a : Op) (va : ∀ e ∈ a, ∀ f ∈ e.1, f.2 < 2) (la : ∀ e ∈ a, Lat D e.2) :
    ∀ t, Dict.getD (normalOrdered tol .boson (normalOrdered tol .boson a)) t 0 =
      Dict.getD (normalOrdered tol .boson a) t 0 :=
  (canonicity_boson_tol D hD tol h0 h1 _ a (normalOrdered_valid_sorted tol .boson (Or.inl rfl) a va) va
    (normal_ordered_lattice_closed D hD tol h0 h1 .boson trivial a la) la).1
    (fun s out hs ho => normal_ordered_sound_boson_spec_tol D hD tol h0 h1 a va la s out hs ho)

/-- idempotence of the executed function, quadratures with Gaussian-integer `ħ ≠ 0`. -/
theorem normal_ordered_idempotent_quad_tol (D : Nat) (hD : 0 < D) (tol : Rat) (h0 : 0 ≤ tol) (h1 : tol * D ≤ 1)
    (hbar : GQ) (hh : hbar ≠ 0) (hk : LatticeKind (.quad hbar))
    (a : Op) (va : ∀ e ∈ a, ∀ f ∈ e.1, f.2 < 2) (la : ∀ e ∈ a, Lat D e.2) :
    ∀ t, Dict.getD (normalOrdered tol (.quad hbar) (normalOrdered tol (.quad hbar) a)) t 0 =
      Dict.getD (normalOrdered tol (.quad hbar) a) t 0 :=
  (canonicity_quad_tol D hD tol h0 h1 hbar hh hk _ a
    (normalOrdered_valid_sorted tol (.quad hbar) (Or.inr rfl) a va) va
    (normal_ordered_lattice_closed D hD tol h0 h1 (.quad hbar) hk a la) la).1
    (fun s out hs ho => quad_sound_hbar_spec_tol D hD tol h0 h1 hbar hk a la s out hs ho)

-- non-vacuity: the extracted EQ_TOLERANCE admits the dyadic lattice 2^-26
example : (0 : Rat) ≤ Generated.eqTolerance ∧ Generated.eqTolerance * ((2 ^ 26 : Nat) : Rat) ≤ 1 := by
  constructor <;> norm_num [Generated.eqTolerance]

/-! ## the InteractionOperator branch -/

/-- the three generators (`quadratic`, `cubic`, `quartic` index pairs built from
`itertools.combinations` of the reversed range) enumerate EXACTLY the pairs `((p,q),(r,s))` with
`n > p > q` and `n > r > s`. -/
theorem interaction_index_pairs_iff (n : Nat) (x : Pair × Pair) :
    x ∈ indexPairs n ↔ (x.1.2 < x.1.1 ∧ x.1.1 < n ∧ x.2.2 < x.2.1 ∧ x.2.1 < n) :=
  mem_indexPairs_iff n x

/-- closed form of the scattered assignments: the new two-body tensor is the antisymmetrised old
one on `p > q ∧ r > s` and zero elsewhere (in particular: supported on `p > q, r > s`). -/
theorem interaction_closed_form (n : Nat) (T : List GQ) (p q r s : Nat)
    (hp : p < n) (hq : q < n) (hr : r < n) (hs : s < n) :
    t4 n (normalOrderedTwoBody n T) p q r s =
      if q < p ∧ s < r then antisym n T (p, q) (r, s) else 0 :=
  normalOrderedTwoBody_closed n T p q r s hp hq hr hs

/-- `normal_ordered(InteractionOperator)`: the new two-body tensor denotes the same operator
`Σ T[p,q,r,s] a^†_p a^†_q a_r a_s`, for every interpretation satisfying the CAR (constant and
one-body tensor are copied unchanged by the code: checked by the correspondence run). -/
theorem interaction_normal_ordered_sound (I : Interp A)
    (car_same : ∀ x l : Factor, x.2 = l.2 → x.1 ≠ l.1 → I.g l * I.g x + I.g x * I.g l = 0)
    (car_sq : ∀ x l : Factor, x.2 = l.2 → x.1 = l.1 → I.g l * I.g x = 0) (n : Nat) (T : List GQ) :
    den2 I n (normalOrderedTwoBody n T) = den2 I n T := by
  have anti : ∀ (a p q : Nat), I.g (q, a) * I.g (p, a) = -(I.g (p, a) * I.g (q, a)) := by
    intro a p q
    by_cases h : p = q
    · subst h
      have := car_sq (p, a) (p, a) rfl rfl
      rw [this]; simp
    · have := car_same (p, a) (q, a) rfl h
      exact eq_neg_of_add_eq_zero_left this
  exact normalOrderedTwoBody_sound I n T (anti 1) (fun p => car_sq (p, 1) (p, 1) rfl rfl)
    (anti 0) (fun r => car_sq (r, 0) (r, 0) rfl rfl)

/-- … in particular in Fock space (the Spec). -/
theorem interaction_normal_ordered_sound_fock (n : Nat) (T : List GQ) :
    den2 fockInterp n (normalOrderedTwoBody n T) = den2 fockInterp n T :=
  interaction_normal_ordered_sound fockInterp fock_car_same fock_car_sq n T

/-! ## `chemist_ordered` and `reorder` only rewrite the operator -/

/-- `chemist_ordered(op)` denotes the same operator, for every interpretation satisfying the CAR
(uses: the normal-ordered intermediate is in normal order and inherits valid action codes, so the
middle pair of each two-body term satisfies `x y + y x = δ`). -/
theorem chemist_ordered_sound (I : Interp A)
    (car_mixed : ∀ x l : Factor, x.2 ≠ 0 → l.2 = 0 →
      I.g l * I.g x + I.g x * I.g l = if x.1 = l.1 then 1 else 0)
    (car_same : ∀ x l : Factor, x.2 = l.2 → x.1 ≠ l.1 → I.g l * I.g x + I.g x * I.g l = 0)
    (car_sq : ∀ x l : Factor, x.2 = l.2 → x.1 = l.1 → I.g l * I.g x = 0)
    (a : Op) (hv : ∀ e ∈ a, ∀ f ∈ e.1, f.2 < 2) :
    I.evalOp (chemistOrdered 0 a) = I.evalOp a :=
  chemistOrdered_sound I car_mixed car_same car_sq a hv

/-- … in particular in Fock space (the Spec). -/
theorem chemist_ordered_sound_fock (a : Op) (hv : ∀ e ∈ a, ∀ f ∈ e.1, f.2 < 2) :
    fockInterp.evalOp (chemistOrdered 0 a) = fockInterp.evalOp a :=
  chemistOrdered_sound fockInterp fock_car_mixed fock_car_same fock_car_sq a hv

/-- `reorder(op, order_function)` denotes the operator with relabelled modes
`a_p ↦ a_{f(p)}` (FermionOperator; `m` is the list `[f(0), f(1), …]`; no condition on `f`). -/
theorem reorder_sound (I : Interp A) (m : List Nat) (a : Op) :
    I.evalOp (reorder 0 .fermion m a) = (I.relabel m).evalOp a :=
  reorder_sound_gen I .fermion (fun _ => ⟨rfl, rfl⟩) m a

/-- `reorder` for BosonOperator / QuadOperator (the constructor sorts by index): same statement,
for interpretations in which factors of different modes commute — before and after relabelling. -/
theorem reorder_sound_boson_quad (I : Interp A) (cls : Cls) (hc : cls = .boson ∨ cls = .quad)
    (comm : ∀ f h : Factor, f.1 ≠ h.1 → I.g f * I.g h = I.g h * I.g f) (m : List Nat) (a : Op) :
    I.evalOp (reorder 0 cls m a) = (I.relabel m).evalOp a := by
  apply reorder_sound_gen I cls _ m a
  intro t
  rcases hc with h | h <;> subst h <;> exact ⟨rfl, evalT_sortF I comm t⟩

/-- `reorder` for QubitOperator (the constructor simplifies the relabelled Pauli string): every
Spec matrix element `⟨t'| reorder(A) |s⟩` equals that of the operator whose terms are relabelled
factor by factor; uses the shared soundness of `QubitOperator._simplify`. -/
theorem reorder_sound_qubit (m : List Nat) (a : Op) (ha : ∀ e ∈ a, Model.ActionsOk e.1) (s t' : Nat) :
    Spec.melQ (reorder 0 .qubit m a) t' s =
      (a.map (fun e => e.2 * Proofs.C02.melA Spec.actPTerm (e.1.map fun f => (m.getD f.1 0, f.2)) s t')).sum :=
  reorder_qubit_sound m a ha s t'

end OFV.C03
