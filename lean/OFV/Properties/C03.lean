/- C03 — property theorems (placeholder while the harness is being validated). -/
import OFV.Model.C03
import OFV.Spec.C03

namespace OFV.C03

theorem placeholder : True := trivial

end OFV.C03
