import OFV.Model.Program
import OFV.Spec.Expr

namespace OFV.C01

theorem placeholder : (1 : Nat) = 1 := rfl

end OFV.C01
