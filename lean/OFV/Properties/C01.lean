/-
C01 — property theorems (only statements that are obligations of the check).
Helper lemmas live in OFV/Proofs.  Every theorem is audited with `#print axioms`.

Term-level statements: a term `τ` with coefficient `c` denotes `c · ⟦τ⟧` where `⟦τ⟧` is the
Spec action on basis states (`Spec.actPTerm` etc.: phase exponent of `i` and new basis mask).
-/
import OFV.Model.Program
import OFV.Spec.Expr
import OFV.Proofs.Bits
import OFV.Proofs.C01Sort
import OFV.Proofs.C01Qubit
import OFV.Proofs.C01Ising
import OFV.Proofs.C01Majorana
import OFV.Proofs.C01Hom
import OFV.Proofs.SpecCAR
import OFV.Proofs.SpecBoson
import OFV.Proofs.C01Program
import OFV.Proofs.C01Expr
import OFV.Proofs.C01ExprInst
import OFV.Proofs.C01ExprMaj
import OFV.Proofs.C01Unique
import OFV.Proofs.C01Div

namespace OFV.C01
open OFV OFV.Spec OFV.Generated OFV.Model

/-- The product table extracted from `qubit_operator.py` on this run is the Pauli
algebra of the Spec: for all qubits `j` and all basis states `s`,
`P_a (P_b |s⟩) = i^k P_r |s⟩` where `(i^k, r) = _PAULI_OPERATOR_PRODUCTS[(a, b)]`. -/
theorem pauliTable_sound (a b : Nat) (ha : a < 4) (hb : b < 4) (j s : Nat) :
    let kb := actP j b s
    let ka := actP j a kb.2
    let pr := pauliProdK a b
    let kr := actP j pr.2 s
    ka.2 = kr.2 ∧ (kb.1 + ka.1) % 4 = (pr.1 + kr.1) % 4 :=
  pauliTable_sound' a b ha hb j s

/-- `sorted(term, key=index)` is a stable rearrangement: a permutation with
non-decreasing indices (all classes whose different indices commute). -/
theorem sort_perm_sorted (t : Term) : (sortF t).Perm t ∧ SortedIdx (sortF t) :=
  ⟨sortF_perm t, sortF_sorted t⟩

/-- Sorting never changes the operator a Pauli term denotes (any length, repeated
indices, any basis state). -/
theorem sort_sound_qubit (t : Term) (s : Nat) : actPTerm (sortF t) s = actPTerm t s :=
  actPTerm_sortF t s

/-- **`QubitOperator._simplify` is sound**: for every term `t` over actions `I,X,Y,Z`
(any length, repeated indices in any order) and every basis state `s`, the simplified
term `t'` with the returned coefficient factor `c` acts as `t` does:
same target state and `c · i^{k'} = i^{k}`. -/
theorem simplifyQubit_sound (t : Term) (ht : ActionsOk t) (s : Nat) :
    let r := simplifyQubit t
    (actPTerm r.2 s).2 = (actPTerm t s).2 ∧
    r.1 * GQ.ipow (actPTerm r.2 s).1 = GQ.ipow (actPTerm t s).1 := by
  have hperm := sortF_perm t
  have hsort := actPTerm_sortF t s
  simp only [simplifyQubit]
  cases hst : sortF t with
  | nil =>
    have : t = [] := by rw [hst] at hperm; exact hperm.symm.eq_nil
    subst this
    simp [actPTerm, GQ.ipow]
  | cons l rest =>
    have hok : ActionsOk (l :: rest) := by
      intro f hf
      exact ht f (hperm.mem_iff.mp (by simpa [hst] using hf))
    have hl : l.2 < 4 := hok l (List.mem_cons_self)
    have hrest : ActionsOk rest := fun f hf => hok f (List.mem_cons_of_mem _ hf)
    have key := mergeQK_sound l rest hl hrest (0, s)
    rw [hst] at hsort
    simp only [mergeQ_eq]
    rw [← hsort, actPTerm_eq, actPTerm_eq, key]
    simp only [shift]
    refine ⟨trivial, ?_⟩
    rw [ipow_mul, ← ipow_mod, Nat.add_comm]

/-- **Qubit results are in canonical form**: indices strictly increasing (each index at
most once, sorted) and no identity factor — for every input term. -/
theorem simplifyQubit_canonical (t : Term) : Canonical (simplifyQubit t).2 := by
  simp only [simplifyQubit]
  have hs := sortF_sorted t
  cases hst : sortF t with
  | nil => simp [Canonical]
  | cons l rest =>
    rw [hst] at hs
    simp only [mergeQ_eq]
    exact (mergeQK_canonical l rest hs).2

/- non-vacuity: a concrete term with repeated indices, out of order, index ≥ 10 -/
example : ActionsOk [(12, 1), (0, 2), (12, 2), (0, 2), (3, 3)] := by
  intro f hf; simp at hf; rcases hf with rfl | rfl | rfl | rfl | rfl <;> decide
example : (simplifyQubit [(12, 1), (0, 2), (12, 2), (0, 2), (3, 3)]).2 = [(3, 3), (12, 3)] := by
  decide +kernel


/-- **`IsingOperator._simplify` is sound**: keeping exactly the indices that occur an odd
number of times denotes the same operator as the original product of `Z`s. -/
theorem simplifyIsing_sound (t : Term) (h : AllZ t) (s : Nat) :
    actPTerm (simplifyIsing t).2 s = actPTerm t s ∧ (simplifyIsing t).1 = 1 := by
  refine ⟨?_, rfl⟩
  have hz := zph_simplify t h s
  have e : (simplifyIsing t).2 = zt (t.foldr (fun f acc => oddInsert f.1 acc) []) := rfl
  rw [e, actPTerm_eq, actPTerm_eq, foldr_Z t h, foldr_Z _ (allZ_zt _)]
  generalize t.foldr (fun f acc => oddInsert f.1 acc) [] = L at *
  by_cases ht : t = []
  · subst ht
    cases L with
    | nil => simp [zt]
    | cons a r =>
      have h0 : zph ([] : Term) s = 0 := rfl
      rw [h0] at hz
      simp only [zt, List.map_cons, List.cons_ne_nil, if_false, if_true, shift]
      congr 1
      simp only [zt, List.map_cons] at hz
      omega
  · simp only [ht, if_false]
    cases L with
    | nil =>
      have h0 : zph (zt []) s = 0 := rfl
      rw [h0] at hz
      simp only [zt, List.map_nil, if_true, shift]
      congr 1
      omega
    | cons a r =>
      simp only [zt, List.map_cons, List.cons_ne_nil, if_false]
      exact shift_congr _ _ hz _

/-- Ising results are in canonical form (indices strictly increasing, only `Z`). -/
theorem simplifyIsing_canonical (t : Term) : Canonical (simplifyIsing t).2 := by
  simp only [simplifyIsing, Canonical]
  refine ⟨?_, ?_⟩
  · have := oddFold_strict t
    exact List.Pairwise.map _ (fun a b hab => hab) this
  · intro f hf
    simp at hf
    obtain ⟨_, _, rfl⟩ := hf
    simp

example : AllZ [(5, 3), (1, 3), (5, 3), (5, 3)] := by
  intro f hf; simp at hf; rcases hf with rfl | rfl | rfl | rfl <;> rfl
example : (simplifyIsing [(5, 3), (1, 3), (5, 3), (5, 3)]).2 = [(1, 3), (5, 3)] := by decide


/-- The Spec Majorana action satisfies the Clifford relations `γ_m² = 1` and
`γ_m γ_m' = -γ_m' γ_m` (`m ≠ m'`) on every basis state (sanity of the Spec the Majorana
theorems are stated against; `shift k` multiplies the phase by `i^k`). -/
theorem majorana_clifford (m m' : Nat) (x : Nat × Nat) :
    stepM m (stepM m x) = shift 0 x ∧
    (m ≠ m' → stepM m (stepM m' x) = shift 2 (stepM m' (stepM m x))) :=
  ⟨stepM_sq m x, fun h => stepM_anti m m' h x⟩

/-- **`_merge_majorana_terms` (the product of two stored Majorana terms) is sound and
canonical**: for strictly increasing `l`, `r`, the merged term is strictly increasing and
`γ_l γ_r |s⟩ = (-1)^parity γ_merged |s⟩` for every basis state — hence
`MajoranaOperator.__mul__` multiplies each pair of terms correctly. -/
theorem majorana_merge_sound (l r : List Nat) (hl : l.Pairwise (· < ·)) (hr : r.Pairwise (· < ·))
    (s : Nat) :
    (mergeM l r).1.Pairwise (· < ·) ∧
    actMTerm (l ++ r) s = shift (2 * (mergeM l r).2) (actMTerm (mergeM l r).1 s) := by
  refine ⟨mergeM_strict l r hl hr, ?_⟩
  have := mergeM_sound l r hl (0, s)
  rw [actMTerm_eq, actMTerm_eq, ← this]
  cases h : l ++ r with
  | nil => simp [shift]
  | cons a L => simp only [List.foldr_cons, shift_zero_stepM]

/-- **`MajoranaOperator.__init__` / `_sort_majorana_term` is sound and canonical** for every
index sequence (any length, repeated indices): output strictly increasing and
`γ_t |s⟩ = (-1)^parity γ_sorted |s⟩`. -/
theorem majorana_sort_sound (t : List Nat) (s : Nat) :
    (sortM t).1.Pairwise (· < ·) ∧
    actMTerm t s = shift (2 * (sortM t).2) (actMTerm (sortM t).1 s) := by
  obtain ⟨h1, h2⟩ := sortMFuel_sound t.length t (Nat.le_refl _) (0, s)
  refine ⟨h1, ?_⟩
  rw [actMTerm_eq, actMTerm_eq, sortM, ← h2]
  cases t with
  | nil => simp [shift]
  | cons a L => simp only [List.foldr_cons, shift_zero_stepM]

example : (sortM [5, 2, 5, 7, 2, 2]).1 = [2, 7] ∧ (sortM [5, 2, 5, 7, 2, 2]).2 = 1 := by decide +kernel

/-- **Products of qubit terms**: the term `QubitOperator.__imul__` stores for the pair
`(lt, rt)` — `_simplify(lt + rt)` with its coefficient factor — acts as `lt` after `rt` on every
basis state (target state and phase).  Together with bilinearity of the dictionary
accumulation this is `⟦A·B⟧ = ⟦A⟧ ∘ ⟦B⟧`. -/
theorem mul_term_sound_qubit (lt rt : Term) (hl : ActionsOk lt) (hr : ActionsOk rt) (s : Nat) :
    let r := simplifyQubit (lt ++ rt)
    let a2 := actPTerm rt s
    let a1 := actPTerm lt a2.2
    (actPTerm r.2 s).2 = a1.2 ∧ r.1 * GQ.ipow (actPTerm r.2 s).1 = GQ.ipow (a2.1 + a1.1) := by
  have hok : ActionsOk (lt ++ rt) := by
    intro f hf
    rcases List.mem_append.mp hf with h | h
    · exact hl f h
    · exact hr f h
  obtain ⟨h1, h2⟩ := simplifyQubit_sound (lt ++ rt) hok s
  have key := foldr_stepP_from lt (actPTerm rt s)
  simp only at h1 h2 ⊢
  rw [h1, h2, actPTerm_eq (lt ++ rt), List.foldr_append, ← actPTerm_eq rt s]
  refine ⟨key.1, ?_⟩
  rw [← ipow_mod, key.2, ipow_mod]


/-! ### operator level: dictionaries of terms

`den φ A = Σ_{(τ,c) ∈ A} c · φ τ` for an arbitrary term functional `φ`; with
`φ = melTermQ s t` (matrix element `⟨t|τ|s⟩` of a Pauli term in the Spec) `den` is the matrix
element of the operator, so the statements below say that the Model's `+=`, `-=`, scalar `*`
and operator `*` are the sums / products of the denoted linear operators. -/

/-- Spec matrix element `⟨t| τ |s⟩` of a Pauli term -/
def melTermQ (s t : Nat) (τ : Term) : GQ :=
  if (actPTerm τ s).2 = t then GQ.ipow (actPTerm τ s).1 else 0

/-- **`⟦A += B⟧ = ⟦A⟧ + ⟦B⟧`** for every class and every term functional, in the exact regime
(no intermediate coefficient is non-zero but below the deletion tolerance; insertion order,
key positions and the deletion of cancelled terms are all covered). -/
theorem add_hom (tol : Rat) (φ : Term → GQ) (A B : Op) (h : ExactAdd tol A B) :
    den φ (iadd tol A B) = den φ A + den φ B :=
  den_iadd tol φ A B h

/-- **`⟦A -= B⟧ = ⟦A⟧ - ⟦B⟧`** likewise. -/
theorem sub_hom (tol : Rat) (φ : Term → GQ) (A B : Op)
    (h : ExactAdd tol A (B.map fun e => (e.1, -e.2))) :
    den φ (isub tol A B) = den φ A - den φ B := by
  rw [isub_eq_iadd_neg, den_iadd tol φ _ _ h, den_map_neg, GQ.sub_eq_add_neg']

/-- **`⟦c · A⟧ = c · ⟦A⟧`** (also `/`, unary `-`, which the code routes through scalar `*`). -/
theorem smul_hom (φ : Term → GQ) (c : GQ) (A : Op) : den φ (smul c A) = c * den φ A :=
  den_smul φ c A

/-- **Quotients**: `A / c` (coded as `A * (1.0 / c)`; in the Model `smul (GQ.inv c) A`) denotes the operator
whose `c`-multiple is `⟦A⟧`, for every nonzero Gaussian-rational `c` — i.e. `⟦A / c⟧ = ⟦A⟧ / c`. -/
theorem div_hom (φ : Term → GQ) (c : GQ) (A : Op) (hc : c ≠ 0) :
    c * den φ (smul (GQ.inv c) A) = den φ A := by
  rw [smul_hom, ← mul_assoc, Proofs.C01Div.mul_inv_cancel c hc, one_mul]

/-- the quotient is the only such operator value: anything whose `c`-multiple is `⟦A⟧` equals `⟦A / c⟧` -/
theorem div_hom_unique (φ : Term → GQ) (c q : GQ) (A : Op) (hc : c ≠ 0) (hq : c * q = den φ A) :
    q = den φ (smul (GQ.inv c) A) := by
  rw [smul_hom, ← hq, ← mul_assoc, Proofs.C01Div.inv_mul_cancel c hc, one_mul]

/-- **Negation**: `⟦-A⟧ = -⟦A⟧` (coded as `-1 * A`). -/
theorem neg_hom (φ : Term → GQ) (A : Op) : den φ (smul (-1) A) = -den φ A := by
  rw [smul_hom]; exact neg_one_mul _

/-- division by zero is the error the code raises (`ZeroDivisionError`), out of place and in place, and it
leaves the store untouched (no result is bound) -/
theorem div_by_zero_raises (tol : Rat) (f : Fam) (s : Store) (x y : Nat) (a : Op) (id : Nat)
    (hy : s.val? y = some a) (hx : s.obj? x = some (id, a)) :
    exec tol f s (.sbin x .div y 0) = .error .zeroDiv ∧ exec tol f s (.isop x .div 0) = .error .zeroDiv := by
  constructor
  · simp [exec, hy]
  · simp [exec, hx]

example : (⟨3, -4⟩ : GQ) * GQ.inv ⟨3, -4⟩ = 1 :=
  Proofs.C01Div.mul_inv_cancel _ (by decide)

/-- **`⟦A · B⟧` is the bilinear extension of the term product** for every class and functional:
the double loop with dictionary accumulation (repeated result keys merged, insertion order
irrelevant) computes `Σ_l Σ_r c_l c_r · (k · φ τ')` with `(k, τ') = _simplify(τ_l + τ_r)`. -/
theorem mul_bilinear (cls : Cls) (φ : Term → GQ) (A B : Op) :
    den φ (mulOp cls A B) =
      bil (fun lt rt => (simplify cls (lt ++ rt)).1 * φ (simplify cls (lt ++ rt)).2) A B :=
  den_mulOp cls φ A B

/-- **Qubit products are products of the denoted operators**: every matrix element of
`A · B` (QubitOperator) is `Σ_{l,r} c_l c_r ⟨t| τ_l τ_r |s⟩` — simplification (sorting, Pauli
table, identity removal) changes nothing. -/
theorem mul_hom_qubit (A B : Op) (hA : ∀ e ∈ A, ActionsOk e.1) (hB : ∀ e ∈ B, ActionsOk e.1)
    (s t : Nat) :
    den (melTermQ s t) (mulOp .qubit A B) = bil (fun lt rt => melTermQ s t (lt ++ rt)) A B := by
  rw [den_mulOp]
  apply bil_congr
  intro l hl r hr
  have hok : ActionsOk (l.1 ++ r.1) := by
    intro f hf
    rcases List.mem_append.mp hf with h | h
    · exact hA l hl f h
    · exact hB r hr f h
  obtain ⟨h1, h2⟩ := simplifyQubit_sound (l.1 ++ r.1) hok s
  show (simplifyQubit (l.1 ++ r.1)).1 * melTermQ s t (simplifyQubit (l.1 ++ r.1)).2 = _
  unfold melTermQ
  by_cases ht : (actPTerm (l.1 ++ r.1) s).2 = t
  · rw [if_pos ht, if_pos (h1.trans ht)]; exact h2
  · rw [if_neg ht, if_neg (fun h => ht (h1.symm.trans h))]; exact GQ.mul_zero' _

/-- Fermionic products: `_simplify` is the identity, so `⟦A · B⟧` is literally the bilinear
extension of concatenation (the CAR are only applied by `normal_ordered`, C03). -/
theorem mul_hom_fermion (φ : Term → GQ) (A B : Op) :
    den φ (mulOp .fermion A B) = bil (fun lt rt => φ (lt ++ rt)) A B := by
  rw [den_mulOp]
  apply bil_congr
  intro l _ r _
  simp only [simplify, GQ.one_mul']

/-- the matrix element of a concatenation factors through the intermediate basis state -/
theorem melTerm_concat (lt rt : Term) (s t : Nat) :
    melTermQ s t (lt ++ rt) =
      melTermQ (actPTerm rt s).2 t lt * GQ.ipow (actPTerm rt s).1 := by
  have key := foldr_stepP_from lt (actPTerm rt s)
  simp only [melTermQ]
  rw [actPTerm_eq (lt ++ rt), List.foldr_append, ← actPTerm_eq rt s, key.1]
  split
  · rw [ipow_mul, ← ipow_mod, key.2, ipow_mod, Nat.add_comm]
  · exact (GQ.zero_mul' _).symm

/-- Spec matrix element `⟨t| γ_τ |s⟩` of a Majorana term -/
def melTermM (s t : Nat) (τ : MTerm) : GQ :=
  if (actMTerm τ s).2 = t then GQ.ipow (actMTerm τ s).1 else 0

/-- **Majorana products are products of the denoted operators**: for operators whose stored
terms are strictly increasing (the class invariant, see `majorana_sort_sound` /
`majorana_merge_sound`), every matrix element of `A * B` is `Σ_{l,r} c_l c_r ⟨t| γ_l γ_r |s⟩`. -/
theorem mul_hom_majorana (A B : MOp) (hA : ∀ e ∈ A, e.1.Pairwise (· < ·))
    (hB : ∀ e ∈ B, e.1.Pairwise (· < ·)) (s t : Nat) :
    den (melTermM s t) (mmul A B) =
      A.foldr (fun l acc' => B.foldr (fun r acc2 =>
        l.2 * r.2 * melTermM s t (l.1 ++ r.1) + acc2) 0 + acc') 0 := by
  rw [den_mmul]
  have key : ∀ l ∈ A, ∀ r ∈ B,
      GQ.sgn (mergeM l.1 r.1).2 * melTermM s t (mergeM l.1 r.1).1 = melTermM s t (l.1 ++ r.1) := by
    intro l hl r hr
    obtain ⟨_, h⟩ := majorana_merge_sound l.1 r.1 (hA l hl) (hB r hr) s
    have e2 : (actMTerm (l.1 ++ r.1) s).2 = (actMTerm (mergeM l.1 r.1).1 s).2 := by rw [h]; rfl
    have e1 : (actMTerm (l.1 ++ r.1) s).1 =
        ((actMTerm (mergeM l.1 r.1).1 s).1 + 2 * (mergeM l.1 r.1).2) % 4 := by rw [h]; rfl
    unfold melTermM
    by_cases ht : (actMTerm (mergeM l.1 r.1).1 s).2 = t
    · rw [if_pos ht, if_pos (e2.trans ht), e1, sgn_eq_ipow, ipow_mul, ipow_mod, Nat.add_comm]
    · rw [if_neg ht, if_neg (fun hh => ht (e2.symm.trans hh))]; exact GQ.mul_zero' _
  -- congruence of the two nested folds
  induction A with
  | nil => rfl
  | cons l A ih =>
    simp only [List.foldr_cons]
    rw [ih (fun e he => hA e (List.mem_cons_of_mem _ he))
          (fun l' hl' r hr => key l' (List.mem_cons_of_mem _ hl') r hr)]
    congr 1
    have kl : ∀ r ∈ B, GQ.sgn (mergeM l.1 r.1).2 * melTermM s t (mergeM l.1 r.1).1 =
        melTermM s t (l.1 ++ r.1) := fun r hr => key l (List.mem_cons_self) r hr
    clear ih key hA
    induction B with
    | nil => rfl
    | cons r B ihB =>
      simp only [List.foldr_cons]
      rw [ihB (fun e he => hB e (List.mem_cons_of_mem _ he))
            (fun r' hr' => kl r' (List.mem_cons_of_mem _ hr')), kl r (List.mem_cons_self)]

/-- `⟦A += B⟧ = ⟦A⟧ + ⟦B⟧` for MajoranaOperator (no deletion of small sums there). -/
theorem add_hom_majorana (φ : MTerm → GQ) (A B : MOp) : den φ (miadd A B) = den φ A + den φ B :=
  den_miadd φ A B

/-- **`BosonOperator._simplify` and `QuadOperator._simplify` are sound**: the stable index sort
(coefficient factor 1) leaves the action of every term on every monomial of the polynomial
(Bargmann / Schrödinger) representation unchanged — for all terms, all `ħ`. -/
theorem simplifyBosonQuad_sound (t : Term) (e : Mono) (hbar : GQ) :
    (simplify .boson t).1 = 1 ∧ (simplify .quad t).1 = 1 ∧
    actTermWith actB (simplify .boson t).2 e = actTermWith actB t e ∧
    actTermWith (actQuad hbar) (simplify .quad t).2 e = actTermWith (actQuad hbar) t e :=
  ⟨rfl, rfl, actB_sortF t e, actQuad_sortF hbar t e⟩

/-- Sanity of the fermionic Spec all fermion statements (C03, C04, …) are measured against: the
ladder action on Fock masks satisfies the canonical anticommutation relations
`a_j² = a†_j² = 0`, `a_j a†_j + a†_j a_j = 1`, and anticommutation on different modes. -/
theorem spec_fermion_car (i j a b s : Nat) (x : Option (Nat × Nat)) :
    stepF (j, a) (stepF (j, a) x) = none ∧
    ((s.testBit j = true →
        stepF (j, 1) (stepF (j, 0) (some (0, s))) = some (0, s) ∧
        stepF (j, 0) (stepF (j, 1) (some (0, s))) = none) ∧
     (s.testBit j = false →
        stepF (j, 0) (stepF (j, 1) (some (0, s))) = some (0, s) ∧
        stepF (j, 1) (stepF (j, 0) (some (0, s))) = none)) ∧
    (i ≠ j → stepF (i, a) (stepF (j, b) x) = negF (stepF (j, b) (stepF (i, a) x))) :=
  ⟨car_square j a x, car_number j s, fun h => car_anticomm i j a b h x⟩

example : ExactAdd GQ.eqTol [([(0, 1)], 1)] [([(0, 1)], -1), ([(2, 3)], GQ.I)] := by
  refine ⟨fun _ => by decide +kernel, fun h => ?_, trivial⟩
  exact absurd h (by decide +kernel)

/-! ### expression trees: the whole arithmetic at once

`Spec.Expr` is the type of finite expression trees over `+`, `-`, `*`, scalar `*` and `**` with
dictionaries of terms at the leaves; `Expr.apply alg e` is the linear map on formal sums of basis states the
Spec assigns to the tree (composition for `*`, iteration for `**`), `ExprHom.evalM tol cls e` is what the
Model of the dunder methods computes bottom-up (`iadd`, `isub`, `mulOp`, `smul`, `powOp`), and
`ExprHom.pair w g = Σ_{(s,c) ∈ w} c · g s` pairs a formal sum with a functional on basis states.
`ExprHom.Exact tol cls valid e` is the exact regime of the tree: admissible keys at the leaves and every
`+`/`-` node exact (`ExactAdd`). -/

open ExprHom in
/-- **The Spec reading of every expression tree is linear** (every algebra, every tree, every formal sum). -/
theorem expr_spec_linear (alg : Alg) (e : Expr) (g : St → GQ) (v : GV) :
    pair (e.apply alg v) g = (v.map fun p => p.2 * pair (e.apply alg [(p.1, 1)]) g).sum :=
  apply_linear alg e g v

open ExprHom in
/-- QubitOperator meets the requirements of the tree theorem: `_simplify` (sort, Pauli table, identity
removal) preserves the action up to the returned factor, concatenation is composition. -/
theorem sound_qubit : Sound .qubit .qubit ActionsOk normBit where
  act_nil := act_nil_qubit
  act_norm := fun _ _ => rfl
  act_append := act_append_qubit
  valid_nil := fun f hf => by simp at hf
  valid_append := actionsOk_append
  valid_simplify := simplifyQubit_actionsOk
  simplify_sound := fun t ht s => by
    obtain ⟨h1, h2⟩ := simplifyQubit_sound t ht (maskOf s)
    have e : simplify .qubit t = simplifyQubit t := rfl
    rw [e]
    simp only [actTerm, Option.map_some]
    rw [h1, h2]

open ExprHom in
/-- IsingOperator (terms of `Z`s, evaluated in the qubit algebra) meets them too. -/
theorem sound_ising : Sound .qubit .ising AllZ normBit where
  act_nil := act_nil_qubit
  act_norm := fun _ _ => rfl
  act_append := act_append_qubit
  valid_nil := fun f hf => by simp at hf
  valid_append := allZ_append
  valid_simplify := fun t _ => allZ_zt _
  simplify_sound := fun t ht s => by
    obtain ⟨h1, h2⟩ := simplifyIsing_sound t ht (maskOf s)
    have e : simplify .ising t = simplifyIsing t := rfl
    rw [e]
    simp only [actTerm, Option.map_some]
    rw [h1, h2, GQ.one_mul']

open ExprHom in
/-- FermionOperator: `_simplify` is the identity. -/
theorem sound_fermion : Sound .fermion .fermion (fun _ => True) normBit where
  act_nil := act_nil_fermion
  act_norm := fun _ _ => rfl
  act_append := act_append_fermion
  valid_nil := trivial
  valid_append := fun _ _ _ _ => trivial
  valid_simplify := fun _ _ => trivial
  simplify_sound := fun t _ s => by
    show actTerm .fermion t s = (actTerm .fermion t s).map fun p => ((1 : GQ) * p.1, p.2)
    cases actTerm .fermion t s with
    | none => rfl
    | some p => simp only [Option.map_some, GQ.one_mul']

open ExprHom in
/-- BosonOperator: the stable index sort preserves the action on every monomial. -/
theorem sound_boson : Sound .boson .boson (fun _ => True) id where
  act_nil := fun _ => rfl
  act_norm := fun _ _ => rfl
  act_append := fun lt rt s => actTermWith_append actB lt rt s
  valid_nil := trivial
  valid_append := fun _ _ _ _ => trivial
  valid_simplify := fun _ _ => trivial
  simplify_sound := fun t _ s => by
    show actTermWith actB t s = (actTermWith actB (sortF t) s).map fun p => ((1 : GQ) * p.1, p.2)
    rw [actB_sortF]
    cases actTermWith actB t s with
    | none => rfl
    | some p => simp only [Option.map_some, GQ.one_mul']

open ExprHom in
/-- QuadOperator, for every `ħ`. -/
theorem sound_quad (hbar : GQ) : Sound (.quad hbar) .quad (fun _ => True) id where
  act_nil := fun _ => rfl
  act_norm := fun _ _ => rfl
  act_append := fun lt rt s => actTermWith_append (actQuad hbar) lt rt s
  valid_nil := trivial
  valid_append := fun _ _ _ _ => trivial
  valid_simplify := fun _ _ => trivial
  simplify_sound := fun t _ s => by
    show actTermWith (actQuad hbar) t s =
      (actTermWith (actQuad hbar) (sortF t) s).map fun p => ((1 : GQ) * p.1, p.2)
    rw [actQuad_sortF]
    cases actTermWith (actQuad hbar) t s with
    | none => rfl
    | some p => simp only [Option.map_some, GQ.one_mul']

open ExprHom in
/-- **Operator arithmetic is a homomorphism on whole expression trees.**  For each of the five
`SymbolicOperator` classes: for every finite expression tree `e` (any shape, any depth, powers included) in
the exact regime, every basis state `s` and every functional `g` (constant on the representatives of a
state), the dictionary the Model of `+`, `-`, `*`, scalar `*`, `**` computes bottom-up pairs with `g` exactly as
the linear map the Spec assigns to the tree does: `⟨g, ⟦e⟧_Spec |s⟩⟩ = Σ_{(τ,c) ∈ evalM e} c · ⟨g, τ|s⟩⟩`.
All results of the evaluation hold admissible keys again. -/
theorem expr_hom_all (tol : Rat) (e : Expr) (s : St) (g : St → GQ) :
    (Exact tol .qubit ActionsOk e → (∀ s, g (normBit s) = g s) →
      pair (e.apply .qubit [(s, 1)]) g = den (termPair .qubit s g) (evalM tol .qubit e)) ∧
    (Exact tol .ising AllZ e → (∀ s, g (normBit s) = g s) →
      pair (e.apply .qubit [(s, 1)]) g = den (termPair .qubit s g) (evalM tol .ising e)) ∧
    (Exact tol .fermion (fun _ => True) e → (∀ s, g (normBit s) = g s) →
      pair (e.apply .fermion [(s, 1)]) g = den (termPair .fermion s g) (evalM tol .fermion e)) ∧
    (Exact tol .boson (fun _ => True) e →
      pair (e.apply .boson [(s, 1)]) g = den (termPair .boson s g) (evalM tol .boson e)) ∧
    (∀ hbar, Exact tol .quad (fun _ => True) e →
      pair (e.apply (.quad hbar) [(s, 1)]) g = den (termPair (.quad hbar) s g) (evalM tol .quad e)) :=
  ⟨fun he hg => (expr_hom sound_qubit tol e he).2 s g hg,
   fun he hg => (expr_hom sound_ising tol e he).2 s g hg,
   fun he hg => (expr_hom sound_fermion tol e he).2 s g hg,
   fun he => (expr_hom sound_boson tol e he).2 s g (fun _ => rfl),
   fun hbar he => (expr_hom (sound_quad hbar) tol e he).2 s g (fun _ => rfl)⟩

open ExprHom in
/-- Qubit and Ising results of a whole tree stay inside the admissible keys (Pauli codes `< 4`, only `Z`). -/
theorem expr_keys_closed (tol : Rat) (e : Expr) :
    (Exact tol .qubit ActionsOk e → ∀ k ∈ evalM tol .qubit e, ActionsOk k.1) ∧
    (Exact tol .ising AllZ e → ∀ k ∈ evalM tol .ising e, AllZ k.1) :=
  ⟨fun he => (expr_hom sound_qubit tol e he).1, fun he => (expr_hom sound_ising tol e he).1⟩

open ExprHom in
/-- the matrix-element form for qubits: with `g` the indicator of the basis state `t`, the pairing of the
tree theorem is `Σ c · ⟨t| τ |m⟩` with the matrix elements `melTermQ` used by the term-level theorems -/
theorem expr_hom_qubit_mel (tol : Rat) (e : Expr) (he : Exact tol .qubit ActionsOk e) (m t : Nat) :
    pair (e.apply .qubit [([m], 1)]) (fun x => if maskOf x = t then 1 else 0) =
      den (melTermQ m t) (evalM tol .qubit e) := by
  rw [(expr_hom sound_qubit tol e he).2 [m] _ (fun _ => rfl)]
  congr 1
  funext τ
  show (match actTerm .qubit τ [m] with
    | none => 0
    | some (k, s') => k * (if maskOf s' = t then 1 else 0)) = _
  have ha : actTerm .qubit τ [m] = some (GQ.ipow (actPTerm τ m).1, [(actPTerm τ m).2]) := rfl
  rw [ha]
  show GQ.ipow (actPTerm τ m).1 * (if maskOf [(actPTerm τ m).2] = t then 1 else 0) = melTermQ m t τ
  unfold melTermQ
  by_cases h : (actPTerm τ m).2 = t
  · have h' : maskOf [(actPTerm τ m).2] = t := h
    rw [if_pos h', if_pos h]; exact GQ.mul_one' _
  · have h' : ¬ maskOf [(actPTerm τ m).2] = t := h
    rw [if_neg h', if_neg h]; exact GQ.mul_zero' _

open ExprHom in
/-- **The same for MajoranaOperator** (sixth class; its own `__mul__` with the signed merge, `+`/`-` that
never delete, `**`): every finite expression tree whose leaves hold strictly increasing index tuples
evaluates to a dictionary with strictly increasing keys (canonical form) that denotes exactly the linear map
the Spec — the Clifford algebra acting on Fock space — assigns to the tree.  No exact-regime hypothesis. -/
theorem expr_hom_majorana (e : Expr) (he : CanonMaj e) :
    (∀ k ∈ evalMaj e, k.1.Pairwise (· < ·)) ∧
    ∀ (s : St) (g : St → GQ), (∀ s, g (normBit s) = g s) →
      pair (e.apply .majorana [(s, 1)]) g = den (mtermPair s g) (evalMaj e) :=
  expr_hom_maj e he

example : ExprHom.CanonMaj (.pow (.sub (.mul (.leaf [([(0, 0), (3, 0)], 1)]) (.leaf [([(1, 0)], GQ.I)]))
    (.leaf [([], 2)])) 3) := by
  refine ⟨⟨?_, ?_⟩, ?_⟩ <;> intro e he <;> simp [toM] at he <;> subst he <;> decide

/- non-vacuity: `((X0 + Z2·i) * X0) ** 2`-shaped tree in the exact regime at the live tolerance -/
example : ExprHom.Exact GQ.eqTol .qubit ActionsOk
    (.pow (.mul (.add (.leaf [([(0, 1)], 1)]) (.leaf [([(2, 3)], GQ.I)])) (.leaf [([(0, 1)], 1)])) 2) := by
  refine ⟨⟨?_, ?_, ?_⟩, ?_⟩
  · intro e he; simp at he; subst he; intro f hf; simp at hf; subst hf; decide
  · intro e he; simp at he; subst he; intro f hf; simp at hf; subst hf; decide
  · refine ⟨fun h => ?_, trivial⟩
    exact absurd h (by decide +kernel)
  · intro e he; simp at he; subst he; intro f hf; simp at hf; subst hf; decide

/-! ### canonical form ⇒ identical term sets -/

/-- **Equal qubit (Ising) operators have identical term sets.**  Two dictionaries whose keys are pairwise
different canonical Pauli strings (what `_simplify` produces: `simplifyQubit_canonical`, `expr_keys_closed`) on
`n` qubits and which denote the same operator in the Spec (all matrix elements equal) assign the same
coefficient to every string — a string stored in only one of them has coefficient 0 there.  (Linear
independence of canonical Pauli strings by trace orthogonality, C02.) -/
theorem canonical_form_unique_qubit (n : Nat) (A B : Op) (wA : Dict.WF A) (wB : Dict.WF B)
    (hcA : ∀ e ∈ A, Canonical e.1 ∧ ActionsOk e.1) (hcB : ∀ e ∈ B, Canonical e.1 ∧ ActionsOk e.1)
    (hbA : ∀ e ∈ A, ∀ f ∈ e.1, f.1 < n) (hbB : ∀ e ∈ B, ∀ f ∈ e.1, f.1 < n)
    (hsame : ∀ s t, s < 2 ^ n → melQ A t s = melQ B t s) (k : Term) :
    Dict.getD A k 0 = Dict.getD B k 0 := by
  have conv : ∀ t : Term, Canonical t ∧ ActionsOk t → Proofs.C02.PauliCanonical t := by
    intro t h
    refine ⟨h.1.1, fun f hf => ?_⟩
    have h0 := h.1.2 f hf
    have h4 := h.2 f hf
    omega
  exact Proofs.C01U.qubit_unique n A B wA wB (fun e he => conv _ (hcA e he)) (fun e he => conv _ (hcB e he))
    hbA hbB hsame k

/-- **Equal MajoranaOperators have identical term sets**: dictionaries with pairwise different strictly
increasing index tuples on `n` modes and equal Spec matrix elements have equal coefficients on every tuple. -/
theorem canonical_form_unique_majorana (n : Nat) (A B : MOp) (hgA : Proofs.C02.MajGood n A)
    (hgB : Proofs.C02.MajGood n B)
    (hsame : ∀ s t, s < 2 ^ n → Proofs.C02.melM A t s = Proofs.C02.melM B t s) (k : MTerm) :
    Dict.getD A k 0 = Dict.getD B k 0 :=
  Proofs.C01U.majorana_unique n A B hgA hgB hsame k

/-! ### programs: aliasing, in-place operators

`Model.exec` is the store semantics of a Python statement over operator objects (variables reference
objects; `Model/Program.lean`), the same function the correspondence run executes against the implementation
statement by statement. -/

/-- **No operation changes any operand other than the in-place target**: after any statement every
existing object other than the one `inPlaceTarget` names (the object bound to `x` for `x op= …`; nothing for
out-of-place statements and for `MajoranaOperator *= operator`, which rebinds) holds the value it held
before — whatever aliases the operands have. -/
theorem exec_frame (tol : Rat) (f : Fam) (s s' : Store) (st : Stmt)
    (h : exec tol f s st = .ok s') (id : Nat) (o : Op) (ho : s.objs[id]? = some o)
    (hne : inPlaceTarget f s st ≠ some id) : s'.objs[id]? = some o :=
  exec_frame_lemma tol f s s' st h id o ho hne

/-- **In-place operators yield the value of their out-of-place forms** — also when the right operand
aliases the target (`a += a`, `a *= a`): `x op= y` leaves in `x` what `z = x op y` binds to `z`, and one
succeeds exactly when the other does. -/
theorem iop_eq_bin (tol : Rat) (f : Fam) (s s1 s2 : Store) (x y z : Nat) (o : BinOp)
    (h1 : exec tol f s (.iop x o y) = .ok s1) (h2 : exec tol f s (.bin z o x y) = .ok s2)
    (hz : z < s.vars.length) : s1.val? x = s2.val? z :=
  iop_eq_bin_lemma tol f s s1 s2 x y z o h1 h2 hz

/-- likewise for a scalar right operand (`*=`, `/=`, `+=`, `-=`), division by zero included -/
theorem isop_eq_sbin (tol : Rat) (f : Fam) (s s1 s2 : Store) (x z : Nat) (o : ISOp) (c : GQ)
    (h1 : exec tol f s (.isop x o c) = .ok s1) (h2 : exec tol f s (.sbin z o.toSOp x c) = .ok s2)
    (hz : z < s.vars.length) : s1.val? x = s2.val? z :=
  isop_eq_sbin_lemma tol f s s1 s2 x z o c h1 h2 hz

/-- an in-place statement rebinds no variable, so every alias of the target observes the new value -/
theorem inplace_aliases (tol : Rat) (f : Fam) (s s' : Store) (st : Stmt)
    (h : exec tol f s st = .ok s') (id : Nat) (ht : inPlaceTarget f s st = some id) :
    s'.vars = s.vars :=
  exec_inplace_vars tol f s s' st h id ht

end OFV.C01
