/-
C01 — property theorems (only statements that are obligations of the check).
Helper lemmas live in OFV/Proofs.  Every theorem is audited with `#print axioms`.
-/
import OFV.Model.Program
import OFV.Spec.Expr
import OFV.Proofs.Bits

namespace OFV.C01
open OFV OFV.Spec OFV.Generated

/-- The product table extracted from `qubit_operator.py` on this run is the Pauli
algebra of the Spec: for all qubits `j` and all basis states `s`,
`P_a (P_b |s⟩) = i^k P_r |s⟩` where `(i^k, r) = _PAULI_OPERATOR_PRODUCTS[(a, b)]`. -/
theorem pauliTable_sound (a b : Nat) (ha : a < 4) (hb : b < 4) (j s : Nat) :
    let kb := actP j b s
    let ka := actP j a kb.2
    let pr := pauliProdK a b
    let kr := actP j pr.2 s
    ka.2 = kr.2 ∧ (kb.1 + ka.1) % 4 = (pr.1 + kr.1) % 4 := by
  have h1 := xflip_xflip s j
  have h2 := testBit_xflip s j
  have : a = 0 ∨ a = 1 ∨ a = 2 ∨ a = 3 := by omega
  have : b = 0 ∨ b = 1 ∨ b = 2 ∨ b = 3 := by omega
  rcases ‹a = 0 ∨ _› with rfl | rfl | rfl | rfl <;> rcases ‹b = 0 ∨ _› with rfl | rfl | rfl | rfl <;>
    cases h : s.testBit j <;> simp [actP, pauliProdK, h, h1, h2]

end OFV.C01
