/- C06 — property theorems. -/
import OFV.Model.C06
import OFV.Spec.C06

namespace OFV.C06
open OFV OFV.Spec OFV.Model OFV.Model.C06

theorem placeholder_partial : True := trivial

end OFV.C06
