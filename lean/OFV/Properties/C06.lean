/-
C06 — property theorems (sparse matrices and linear operators).
Helper lemmas live in OFV/Proofs/C06*.lean.  Every theorem is audited with `#print axioms`.
The Model functions named here are the ones `ofv-driver` executes in the correspondence run.

Proved end to end: `qubit_sparse_sound` (Kronecker chains, the swapped `(column, row) = nonzero()`
coordinate extraction — right because Pauli-string chains have a symmetric sparsity pattern and no
explicit zeros —, duplicate summation), `jw_sparse_sound`, `matvec_*`, `diagonal_sound`,
`parallel_*`.  Not proved (see OPEN_STATEMENTS in harness/c06.py): truncated boson / quadrature
matrices (per column incl. the cut-off and the index arithmetic; the float sum over terms with square
roots and the QuadOperator route are numeric) and eigenspectrum (numeric correspondence); `expectation` / `variance` are proved for
the Model's sparse-matrix form (`expectation_*`, `variance_*`).
-/
import OFV.Model.C06
import OFV.Spec.C06
import OFV.Proofs.C06Basic
import OFV.Proofs.C06Kron
import OFV.Proofs.C06Term
import OFV.Proofs.C06Matvec
import OFV.Proofs.C06Ladder
import OFV.Proofs.C06JW
import OFV.Proofs.C06Assembly
import OFV.Proofs.C06Boson
import OFV.Proofs.C06BosonCut
import OFV.Model.C06Expect
import OFV.Proofs.C06Expect
import OFV.Proofs.C06MatvecFull

namespace OFV.C06
open OFV OFV.Spec OFV.Spec.C06 OFV.Model OFV.Model.C06 OFV.Proofs.C06

/-! ### `scipy.sparse.kron` chains (`kronecker_operators`) -/

/-- Kronecker entry rule for the Model of `scipy.sparse.kron`: with dense semantics
(`Mat.get` sums duplicate entries) `kron(A, B)[r1·R_B + r2, c1·C_B + c2] = A[r1, c1]·B[r2, c2]`. -/
theorem kron_entry (A B : Mat) (hB : InRange B) (r1 r2 c1 c2 : Nat) (hr : r2 < B.rows) (hc : c2 < B.cols) :
    (kron A B).get (r1 * B.rows + r2) (c1 * B.cols + c2) = A.get r1 c1 * B.get r2 c2 :=
  kron_get A B hB r1 r2 c1 c2 hr hc

example : InRange (pauliMat 2) ∧ (kron (pauliMat 1) (pauliMat 2)).get (1 * 2 + 0) (0 * 2 + 1) = -GQ.I := by
  refine ⟨by intro e he; simp [pauliMat, Generated.C06.pauliEntries] at he; rcases he with rfl | rfl <;> simp [pauliMat],
    by decide +kernel⟩

/-! ### the literal matrices of the source (re-extracted on every run) -/

/-- `pauli_matrix_map[X|Y|Z]` as extracted from `sparse_tools.py` are the matrices of the Spec
Pauli action: column `b` holds `i^k` in row `b'` where `P|b⟩ = i^k |b'⟩`. -/
theorem pauli_matrices_sound (p b b' : Nat) (hp : 1 ≤ p ∧ p ≤ 3) (hb : b < 2) (hb' : b' < 2) :
    (pauliMat p).get b' b = (if (actP 0 p b).2 = b' then GQ.ipow (actP 0 p b).1 else 0) := by
  have h1 : p = 1 ∨ p = 2 ∨ p = 3 := by omega
  have h2 : b = 0 ∨ b = 1 := by omega
  have h3 : b' = 0 ∨ b' = 1 := by omega
  rcases h1 with rfl | rfl | rfl <;> rcases h2 with rfl | rfl <;> rcases h3 with rfl | rfl <;> decide +kernel

/-- `q_raise_csc` / `q_lower_csc` as extracted are the one-mode matrices of the Spec ladder
operators `a†`, `a` (`|1⟩ ⟨0|` and `|0⟩ ⟨1|`). -/
theorem ladder_matrices_sound (ty b b' : Nat) (ht : ty ≤ 1) (hb : b < 2) (hb' : b' < 2) :
    (if ty = 1 then qRaise else qLower).get b' b =
      (match actF 0 ty b with
       | none => 0
       | some (k, s') => if s' = b' then GQ.sgn k else 0) := by
  have h1 : ty = 0 ∨ ty = 1 := by omega
  have h2 : b = 0 ∨ b = 1 := by omega
  have h3 : b' = 0 ∨ b' = 1 := by omega
  rcases h1 with rfl | rfl <;> rcases h2 with rfl | rfl <;> rcases h3 with rfl | rfl <;> decide +kernel

/-- `kron_chain_entry`: the entry of `reduce(kron, [M, M_1, …, M_k])` at the mixed-radix (Horner)
indices of the digit lists is the product of the factor entries at the digits — for every chain
length and all factor shapes. -/
theorem kron_chain_entry (M : Mat) (fs : List (Mat × Nat × Nat)) (r0 c0 : Nat)
    (h : ∀ f ∈ fs, InRange f.1 ∧ f.2.1 < f.1.rows ∧ f.2.2 < f.1.cols) :
    (kronList (M :: fs.map (·.1))).get (idxR r0 fs) (idxC c0 fs) =
      fs.foldl (fun acc f => acc * f.1.get f.2.1 f.2.2) (M.get r0 c0) := by
  simp only [kronList]
  exact kron_chain_get fs M r0 c0 h

/-- `sparse_shape`: every term matrix assembled by `qubit_operator_sparse` for a Pauli string on
qubits `< n` is `2^n × 2^n` (identity padding for gaps and for the trailing qubits included). -/
theorem qubit_term_shape (n : Nat) (t : List (Nat × Nat)) (c : GQ)
    (hp : t.Pairwise (fun f g => f.1 < g.1)) (hn : ∀ f ∈ t, f.1 < n) :
    (kronList (qubitTermFactors n t c)).rows = 2 ^ n ∧ (kronList (qubitTermFactors n t c)).cols = 2 ^ n :=
  qubitTermFactors_shape n t c hp hn

example : (kronList (qubitTermFactors 4 [(1, 2), (2, 3)] 1)).rows = 16 := by decide

/-- `qubit_sparse_sound`, term level: for a Pauli string `t` (strictly increasing qubits `< n`,
actions X/Y/Z), any coefficient `c` and any register size `n`, the matrix
`kronecker_operators([c, I…, P_1, I…, P_2, …, I…])` built by `qubit_operator_sparse` has at
(row `beIndex n u`, column `beIndex n s`) the value `c · ⟨u| t |s⟩` of the Spec action, for all
basis states `s, u < 2^n` — i.e. it is the matrix of `c·t` in the big-endian computational basis. -/
theorem qubit_term_matrix_sound (n : Nat) (t : List (Nat × Nat)) (c : GQ)
    (hp : t.Pairwise (fun f g => f.1 < g.1)) (hv : ∀ f ∈ t, 1 ≤ f.2 ∧ f.2 ≤ 3) (hn : ∀ f ∈ t, f.1 < n)
    (s u : Nat) (hs : s < 2 ^ n) (hu : u < 2 ^ n) :
    (kronList (qubitTermFactors n t c)).get (beIndex n u) (beIndex n s) = c * Spec.C07.ampP t s u :=
  qubitTermFactors_get n t c hp hv hn s u hs hu

example : (kronList (qubitTermFactors 3 [(0, 2), (2, 3)] ⟨2, 0⟩)).get (beIndex 3 0b101) (beIndex 3 0b100) = ⟨0, -2⟩ ∧
    Spec.C07.ampP [(0, 2), (2, 3)] 0b100 0b101 = ⟨0, -1⟩ := by
  refine ⟨by decide +kernel, by decide +kernel⟩

/-! ### `jordan_wigner_ladder_sparse` -/

/-- `jw_ladder_sound`: for every register size `n > j` the matrix
`kron(Z, …, Z, q_raise | q_lower, identity(2^(n-j-1)))` has at (row `beIndex n u`, column
`beIndex n s`) the Spec matrix element `⟨u| a_j^(†) |s⟩` — `(-1)^{#occupied modes below j}` if the
ladder operator maps `|s⟩` to `|u⟩`, else 0 — for all basis states `s, u < 2^n`. -/
theorem jw_ladder_sound (n j ty : Nat) (hj : j < n) (ht : ty ≤ 1) (s u : Nat) (hs : s < 2 ^ n) (hu : u < 2 ^ n) :
    (jwLadder n j ty).get (beIndex n u) (beIndex n s) =
      (match actF j ty s with
       | none => 0
       | some (k, s') => if s' = u then GQ.sgn k else 0) :=
  jwLadder_get n j ty hj ht s u hs hu

example : (jwLadder 3 1 1).get (beIndex 3 0b011) (beIndex 3 0b001) = -1 ∧ actF 1 1 0b001 = some (1, 0b011) := by
  refine ⟨by decide +kernel, by decide⟩

/-- `jw_sparse_sound`, term level: the product `c·I · L_{f1} ⋯ L_{fk}` of ladder matrices formed by
`jordan_wigner_sparse` for one term (`sparse_matrix = sparse_matrix * jw_operators[i][a]`) has at
(row `beIndex n u`, column `beIndex n s`) the value `c · ⟨u| f1 ⋯ fk |s⟩` of the Spec (`actFTerm`),
for every register size `n` above the modes and all basis states. -/
theorem jw_term_matrix_sound (n : Nat) (c : GQ) (t : List (Nat × Nat)) (ht : ∀ f ∈ t, f.1 < n ∧ f.2 ≤ 1)
    (s u : Nat) (hs : s < 2 ^ n) (hu : u < 2 ^ n) :
    (t.foldl (fun M f => matMul M (jwLadder n f.1 f.2)) (scaleMat c (identity (2 ^ n)))).get
      (beIndex n u) (beIndex n s) =
      c * (match actFTerm t s with
           | none => 0
           | some (k, s') => if s' = u then GQ.sgn k else 0) :=
  jwTerm_get n c t ht s u hs hu

/-- `jw_sparse_sound`, whole operator: the matrix returned by the Model of `jordan_wigner_sparse(op, n)`
(zero-coefficient terms skipped, triplets concatenated, duplicates summed, zeros eliminated) is
`2^n × 2^n` and its dense entry at (row `beIndex n u`, column `beIndex n s`) is the matrix element
`Σ_terms c · ⟨u| t |s⟩` of the operator. -/
theorem jw_sparse_sound (n : Nat) (a : List (List (Nat × Nat) × GQ)) (ha : ∀ e ∈ a, ∀ f ∈ e.1, f.1 < n ∧ f.2 ≤ 1)
    (s u : Nat) (hs : s < 2 ^ n) (hu : u < 2 ^ n) :
    (jordanWignerSparse (some n) a).1 = 2 ^ n ∧
    getL (jordanWignerSparse (some n) a).2 (beIndex n u) (beIndex n s) =
      a.foldl (fun acc e => acc + e.2 * ampFG e.1 s u) 0 :=
  jwSparse_get n a ha s u hs hu

example : ([(1, 1), (0, 0)].foldl (fun M f => matMul M (jwLadder 2 f.1 f.2)) (scaleMat ⟨2, 0⟩ (identity (2 ^ 2)))).get
      (beIndex 2 0b10) (beIndex 2 0b01) = ⟨2, 0⟩ ∧ actFTerm [(1, 1), (0, 0)] 0b01 = some (0, 0b10) := by
  refine ⟨by decide +kernel, by decide⟩

/-! ### coordinate assembly -/

/-- `coo_assembly_sound`: the final `coo_matrix((values, (rows, cols))).tocsc()` +
`eliminate_zeros()` step (`canonEntries`: sort, sum duplicates, drop zeros) keeps every dense entry
of the collected triplets — the assembled matrix is the sum of the term matrices — and stores no
explicit zero. -/
theorem coo_assembly_sound (es : List (Nat × Nat × GQ)) (r c : Nat) :
    getL (canonEntries es) r c = getL es r c ∧ ∀ e ∈ canonEntries es, e.2.2 ≠ 0 :=
  canonEntries_get es r c

example : canonEntries [(1, 0, ⟨1, 0⟩), (0, 1, ⟨2, 0⟩), (1, 0, ⟨-1, 0⟩)] = [(0, 1, ⟨2, 0⟩)] := by decide +kernel

/-- `coordinate_extraction_sound`: for every Pauli-string chain (any coefficient, any register size)
the triplets `values = M.tocoo().data` (CSC order), `(column, row) = M.nonzero()` (row-major order,
names swapped) that `qubit_operator_sparse` collects are exactly the entries of the term matrix:
the two sorted index lists coincide because the pattern is symmetric and there are no explicit zeros. -/
theorem coordinate_extraction_sound (n : Nat) (t : List (Nat × Nat)) (c : GQ) :
    qubitTermTriplets (kronList (qubitTermFactors n t c)) =
      some (sortBy keyCR (kronList (qubitTermFactors n t c)).entries) :=
  qubitTermTriplets_chain n t c

/-- the extraction is NOT right for a non-symmetric pattern (why the statement needs the Pauli structure) -/
example : qubitTermTriplets ⟨2, 2, [(0, 1, 1)]⟩ = some [(1, 0, 1)] := by decide +kernel

/-- `qubit_sparse_sound`, whole operator: for an operator of Pauli strings on qubits `< n` (and
`count_qubits ≤ n`) the Model of `qubit_operator_sparse(op, n)` returns a `2^n × 2^n` matrix whose
dense entry at (row `beIndex n u`, column `beIndex n s`) is the matrix element `Σ_terms c · ⟨u| t |s⟩`
of the operator in the Spec, for all basis states. -/
theorem qubit_sparse_sound (n : Nat) (a : List (List (Nat × Nat) × GQ)) (hc : countQubitsQubit a ≤ n)
    (ha : ∀ e ∈ a, e.1.Pairwise (fun f g => f.1 < g.1) ∧ ∀ f ∈ e.1, f.1 < n ∧ 1 ≤ f.2 ∧ f.2 ≤ 3)
    (s u : Nat) (hs : s < 2 ^ n) (hu : u < 2 ^ n) :
    ∃ L, qubitOperatorSparse (some n) a = some (2 ^ n, L) ∧
      getL L (beIndex n u) (beIndex n s) = a.foldl (fun acc e => acc + e.2 * Spec.C07.ampP e.1 s u) 0 :=
  qubitSparse_get n a hc ha s u hs hu

/-! ### `LinearQubitOperator._matvec` -/

/-- `matvec_sound`, term level: for a Pauli string `t` on qubits `< n` and *every* vector `x` of
length `2^n`, the recursive halving (`numpy.split` / `xyz` / `numpy.concatenate`) returns a vector of
length `2^n` that is the image of `x` under the Spec action in the big-endian basis: for every
basis state `s` with `t|s⟩ = i^k |s'⟩`, `result[beIndex n s'] = i^k · x[beIndex n s]`. -/
theorem matvec_term_sound (n : Nat) (t : List (Nat × Nat)) (x : List GQ)
    (hp : t.Pairwise (fun f g => f.1 < g.1)) (hv : ∀ f ∈ t, f.1 < n ∧ 1 ≤ f.2 ∧ f.2 ≤ 3)
    (hx : x.length = 2 ^ n) :
    (matvecTerm t x).length = 2 ^ n ∧
    ∀ s, (matvecTerm t x).getD (beIndex n (actPTerm t s).2) 0 =
      GQ.ipow (actPTerm t s).1 * x.getD (beIndex n s) 0 :=
  matvecTerm_sound n t x hp hv hx

example : matvecTerm [(0, 2), (1, 3)] [⟨1, 0⟩, ⟨2, 0⟩, ⟨3, 0⟩, ⟨4, 0⟩] = [⟨0, -3⟩, ⟨0, 4⟩, ⟨0, 1⟩, ⟨0, -2⟩] := by
  decide +kernel

/-- `matvec_sound`, linearity: `LinearQubitOperator._matvec` is the coefficient-weighted sum of the
term results, entry by entry (`retvec += coefficient * numpy.concatenate(vecs)`), and has length `2^n`. -/
theorem matvec_linear (n : Nat) (a : List (List (Nat × Nat) × GQ)) (x : List GQ) (hx : x.length = 2 ^ n)
    (ha : ∀ e ∈ a, e.1.Pairwise (fun f g => f.1 < g.1) ∧ ∀ f ∈ e.1, f.1 < n ∧ 1 ≤ f.2 ∧ f.2 ≤ 3) (i : Nat) :
    (matvec a x).length = 2 ^ n ∧
    (matvec a x).getD i 0 = a.foldl (fun acc e => acc + e.2 * (matvecTerm e.1 x).getD i 0) 0 := by
  have h := matvec_fold n x hx a ha (x.map fun _ => 0) (by simp [hx]) i
  have hz : (x.map fun _ => (0 : GQ)).getD i 0 = 0 := by
    simp only [List.getD_eq_getElem?_getD, List.getElem?_map]
    cases x[i]? <;> rfl
  rw [hz] at h
  exact h

/-! ### `get_linear_qubit_operator_diagonal` -/

/-- `diagonal_sound`, term level: a term containing `X` or `Y` contributes nothing; for a term of
`Z`s on qubits `< n` the contributed vector has length `2^n` and its entry at `beIndex n s` is the
diagonal matrix element `⟨s| t |s⟩ = i^k` (`t|s⟩ = i^k |s⟩`), for every basis state `s`. -/
theorem diagonal_term_sound (n : Nat) (t : List (Nat × Nat))
    (hp : t.Pairwise (fun f g => f.1 < g.1)) (hn : ∀ f ∈ t, f.1 < n) :
    ((∃ f ∈ t, f.2 = 1 ∨ f.2 = 2) → diagTerm n t = none) ∧
    ((∀ f ∈ t, f.2 = 3) → ∃ v, diagTerm n t = some v ∧ v.length = 2 ^ n ∧
      ∀ s, s < 2 ^ n → (actPTerm t s).2 = s ∧ v.getD (beIndex n s) 0 = GQ.ipow (actPTerm t s).1) := by
  refine ⟨diagTerm_of_xy n t, fun hz => ?_⟩
  have hv : ∀ f ∈ t, f.1 < n ∧ 1 ≤ f.2 ∧ f.2 ≤ 3 := fun f hf => ⟨hn f hf, by rw [hz f hf]; omega, by rw [hz f hf]; omega⟩
  obtain ⟨hl, hs⟩ := matvecTerm_sound n t (List.replicate (2 ^ n) 1) hp hv (by simp)
  refine ⟨_, diagTerm_of_allZ n t hz, hl, fun s hs' => ?_⟩
  have hdiag := actPTerm_allZ t hz s
  refine ⟨hdiag, ?_⟩
  have := hs s
  rw [hdiag] at this
  rw [this]
  have : (List.replicate (2 ^ n) (1 : GQ)).getD (beIndex n s) 0 = 1 := by
    simp [List.getD_eq_getElem?_getD, List.getElem?_replicate, beIndex_lt n s]
  rw [this, gq_mul_one]

example : diagTerm 2 [(1, 3)] = some [1, -1, 1, -1] ∧ diagTerm 2 [(0, 1), (1, 3)] = none := by
  refine ⟨by decide +kernel, by decide +kernel⟩

/-- `diagonal_sound`: for an operator of Pauli strings on qubits `< n` (and `count_qubits ≤ n`),
`get_linear_qubit_operator_diagonal(op, n)` succeeds, has length `2^n`, and its entry at `beIndex n s`
is the diagonal matrix element `Σ_terms c · ⟨s| t |s⟩` of the operator, for every basis state `s < 2^n`
(terms with `X` / `Y` contribute 0 because they move every basis state). -/
theorem diagonal_sound (n : Nat) (a : List (List (Nat × Nat) × GQ)) (hc : countQubitsQubit a ≤ n)
    (ha : ∀ e ∈ a, e.1.Pairwise (fun f g => f.1 < g.1) ∧ ∀ f ∈ e.1, f.1 < n ∧ 1 ≤ f.2 ∧ f.2 ≤ 3)
    (s : Nat) (hs : s < 2 ^ n) :
    ∃ v, linearDiagonal (some n) a = some v ∧ v.length = 2 ^ n ∧
      v.getD (beIndex n s) 0 = a.foldl (fun acc e => acc + e.2 * Spec.C07.ampP e.1 s s) 0 := by
  have h := diag_fold n a ha s hs (List.replicate (2 ^ n) 0) (by simp)
  have hz : (List.replicate (2 ^ n) (0 : GQ)).getD (beIndex n s) 0 = 0 := by
    simp [List.getD_eq_getElem?_getD, List.getElem?_replicate, beIndex_lt n s]
  rw [hz] at h
  refine ⟨_, ?_, h.1, h.2⟩
  unfold linearDiagonal
  have : ¬ n < countQubitsQubit a := by omega
  simp only [Option.getD_some, this, if_false]
  rfl

example : linearDiagonal (some 2) [([(0, 3)], ⟨1, 1⟩), ([(0, 1), (1, 3)], 1), ([], ⟨2, 0⟩)] =
    some [⟨3, 1⟩, ⟨3, 1⟩, ⟨1, -1⟩, ⟨1, -1⟩] := by decide +kernel

/-! ### `ParallelLinearQubitOperator`: the groups together are the whole operator -/

/-- For every process count `k`, every entry of the parallel result (group results delivered in
the natural order; any other order gives the same vector by `parallel_any_order`) equals the entry of
the undivided `LinearQubitOperator._matvec`. -/
theorem parallel_matvec_sound (n k : Nat) (a : List (List (Nat × Nat) × GQ)) (x : List GQ)
    (hx : x.length = 2 ^ n)
    (ha : ∀ e ∈ a, e.1.Pairwise (fun f g => f.1 < g.1) ∧ ∀ f ∈ e.1, f.1 < n ∧ 1 ≤ f.2 ∧ f.2 ≤ 3) (i : Nat) :
    (parallelMatvec k a x (List.range (operatorGroups k a).length)).getD i 0 = (matvec a x).getD i 0 :=
  parallel_eq_matvec n k a x hx ha i

/-! ### the big-endian index convention -/

/-- The matrix index of a basis state is the bit reversal of its mask: qubit `j` is bit
`n-1-j` of the index (`index = Σ_j b_j 2^(n-1-j)`), the index is `< 2^n`, and distinct masks
`< 2^n` get distinct indices. -/
theorem be_index_bit_reversal (n s : Nat) :
    beIndex n s < 2 ^ n ∧ (∀ j, j < n → (beIndex n s).testBit (n - 1 - j) = s.testBit j) ∧
    (∀ s', s < 2 ^ n → s' < 2 ^ n → beIndex n s = beIndex n s' → s = s') :=
  ⟨beIndex_lt n s, fun j hj => beIndex_testBit n s j hj, fun s' hs hs' h => beIndex_injective n s s' hs hs' h⟩

example : beIndex 3 0b001 = 4 ∧ beIndex 3 0b110 = 3 := by decide

/-! ### `count_qubits` -/

/-- FermionOperator branch: every mode index is `< count_qubits`, and the bound is attained
(or the count is 0 and there is no ladder operator at all). -/
theorem count_qubits_fermion_spec (a : List (List (Nat × Nat) × GQ)) :
    (∀ e ∈ a, ∀ f ∈ e.1, f.1 < countQubitsFermion a) ∧
    (countQubitsFermion a = 0 ∨ ∃ e ∈ a, ∃ f ∈ e.1, countQubitsFermion a = f.1 + 1) :=
  ⟨(countFermion_aux a 0).2, countFermion_attained a 0⟩

/-- QubitOperator branch (only the last factor of each term is read): for index-sorted terms
every qubit index is `< count_qubits`. -/
theorem count_qubits_qubit_spec (a : List (List (Nat × Nat) × GQ))
    (hs : ∀ e ∈ a, e.1.Pairwise (fun f g => f.1 < g.1)) :
    ∀ e ∈ a, ∀ f ∈ e.1, f.1 < countQubitsQubit a :=
  (countQubit_aux a 0 hs).2

example : countQubitsQubit [([(0, 1), (3, 2)], 1), ([(1, 3)], 1)] = 4 := by decide

/-! ### operator groups and the parallel reduction -/

/-- `groups_partition`: for every requested number of groups (`k ≥ 0`; `k < 1` is treated as 1)
`get_operator_groups` returns consecutive chunks whose concatenation is the term list — every
term occurs in exactly one group — and there are `min(max(k, 1), #terms)` groups. -/
theorem groups_partition (k : Nat) (a : List (List (Nat × Nat) × GQ)) :
    (operatorGroups k a).flatten = a ∧ (operatorGroups k a).length = min (max k 1) a.length :=
  ⟨operatorGroups_flatten k a, operatorGroups_length k a⟩

example : operatorGroups 2 [([(0, 1)], 1), ([(1, 1)], 1), ([(2, 1)], 1)] =
    [[([(0, 1)], 1), ([(1, 1)], 1)], [([(2, 1)], 1)]] := by decide

/-- `parallel_any_order`: the result of `ParallelLinearQubitOperator._matvec` does not depend on
the order in which the worker pool delivers the group results (`imap_unordered`): any two
delivery orders that are permutations of each other give the same vector. -/
theorem parallel_any_order (k : Nat) (a : List (List (Nat × Nat) × GQ)) (x : List GQ) (p₁ p₂ : List Nat)
    (h : p₁.Perm p₂) : parallelMatvec k a x p₁ = parallelMatvec k a x p₂ := by
  unfold parallelMatvec
  exact reduceAdd_perm _ (h.map _)

example : [2, 0, 1].Perm [0, 1, 2] := by decide

/-! ### truncated bosonic matrices -/

/-- `boson_term_sound`, PARTIAL (no square roots, cut-off not reached).  Full statement (open): the
matrix returned by `boson_operator_sparse(op, trunc)` is the product of the truncated ladder matrices,
`Σ_terms c · ⟨m| t |n⟩` with `b†|n⟩ = √(n+1)|n+1⟩` cut at `trunc`.
Proved: the Model's column of a ladder word keeps the amplitude as `√R`; whenever the word does not hit
the cut-off (`foldr bstep = some (ds, R)`), the polynomial representation of the Spec (`b† = x·`,
`b = ∂`) applied to the monomial with the same occupation numbers is defined, reaches the occupation
numbers `ds`, and its integer coefficient `K` satisfies `K² · Π n_out! = R · Π n_in!` — the Model
entry `√R` is the Spec coefficient conjugated by `diag(√n!)` (Fock normalisation `|n⟩ = x^n/√n!`).
Open: the cut-off itself, the mixed-radix index arithmetic (`digitsOf` / `indexOf`), the sum over
terms with floating-point square roots, and the QuadOperator route. -/
theorem boson_term_sound_partial (trunc : Nat) (t : List (Nat × Nat)) (ds0 : List Nat) (e0 : Spec.Mono)
    (hagree : ∀ m, Spec.expGet e0 m = ds0.getD m 0) (ht : ∀ f ∈ t, f.1 < ds0.length ∧ f.2 ≤ 1)
    (ds : List Nat) (R : Nat) (h : t.foldr (Proofs.C06B.bstep trunc) (some (ds0, 1)) = some (ds, R)) :
    ∃ (K : Nat) (e : Spec.Mono), Spec.actTermWith Spec.actB t e0 = some (GQ.ofInt K, e) ∧
      (∀ m, Spec.expGet e m = ds.getD m 0) ∧ ds.length = ds0.length ∧
      K * K * Proofs.C06B.wfact ds = R * Proofs.C06B.wfact ds0 :=
  Proofs.C06B.boson_word_sound trunc t ds0 e0 hagree ht ds R h

/-- the Model's `bosonTermColumn` is that fold on the big-endian digits of the column index -/
theorem boson_term_column_eq (trunc nModes : Nat) (t : List (Nat × Nat)) (col : Nat) :
    bosonTermColumn trunc nModes t col =
      (t.foldr (Proofs.C06B.bstep trunc) (some (digitsOf trunc nModes col, 1))).map
        fun s => (indexOf trunc s.1, s.2) :=
  Proofs.C06B.bosonTermColumn_eq trunc nModes t col

example : bosonTermColumn 4 1 [(0, 1), (0, 1), (0, 0)] 2 = some (3, 12) ∧
    Spec.actTermWith Spec.actB [(0, 1), (0, 1), (0, 0)] [2] = some (GQ.ofInt 2, [3]) ∧
    2 * 2 * Proofs.C06B.wfact [3] = 12 * Proofs.C06B.wfact [2] := by
  refine ⟨by decide, by decide +kernel, by decide⟩

/-- **`boson_column_sound`** — cut-off and index arithmetic included.  `boson_ladder_sparse(…, trunc)` is
`P b† P` resp. `P b P` with `P` the projector on occupations `< trunc`; on the polynomial representation
this is `Proofs.C06B.actBT trunc` (creation into occupation `≥ trunc` gives 0, otherwise `Spec.actB`).
For every ladder word `t` on modes `< nModes`, every column index `col` (its occupation numbers are the
big-endian base-`trunc` digits) and the monomial `e0` with those exponents:
* the Model's column is empty exactly when the truncated Spec word vanishes on `x^{e0}` (lowering an
  empty mode or hitting the cut-off anywhere inside the word);
* otherwise the entry `(row, √R)` has `row < trunc^nModes`, the digits of `row` are the exponents the
  truncated Spec word reaches, and its integer coefficient `K` satisfies
  `K² · Π n_row! = R · Π n_col!` (conjugation by `diag(√n!)`, stated without square roots). -/
theorem boson_column_sound (trunc nModes : Nat) (h0 : 0 < trunc) (t : List (Nat × Nat))
    (ht : ∀ f ∈ t, f.1 < nModes ∧ f.2 ≤ 1) (col : Nat) (e0 : Spec.Mono)
    (hagree : ∀ m, Spec.expGet e0 m = (digitsOf trunc nModes col).getD m 0) :
    (bosonTermColumn trunc nModes t col = none ↔
      Spec.actTermWith (Proofs.C06B.actBT trunc) t e0 = none) ∧
    ∀ row R, bosonTermColumn trunc nModes t col = some (row, R) →
      row < trunc ^ nModes ∧
      ∃ (K : Nat) (e : Spec.Mono),
        Spec.actTermWith (Proofs.C06B.actBT trunc) t e0 = some (GQ.ofInt K, e) ∧
        (∀ m, Spec.expGet e m = (digitsOf trunc nModes row).getD m 0) ∧
        K * K * Proofs.C06B.wfact (digitsOf trunc nModes row) =
          R * Proofs.C06B.wfact (digitsOf trunc nModes col) :=
  Proofs.C06B.bosonTermColumn_sound trunc nModes h0 t ht col e0 hagree

/-- a defined truncated word is the untruncated Spec word (truncation only removes terms) -/
theorem boson_truncation_restricts (trunc : Nat) (t : List (Nat × Nat)) (e : Spec.Mono) (r : GQ × Spec.Mono)
    (h : Spec.actTermWith (Proofs.C06B.actBT trunc) t e = some r) : Spec.actTermWith Spec.actB t e = some r :=
  Proofs.C06B.actBT_le trunc t e r h

/-- **`boson_index_bijection`**: the big-endian base-`trunc` digits (`mode 0` most significant) are a
bijection between the matrix indices `< trunc^nModes` and the occupation vectors with all entries
`< trunc`. -/
theorem boson_index_bijection (trunc nModes : Nat) (h0 : 0 < trunc) :
    (∀ idx, idx < trunc ^ nModes →
      indexOf trunc (digitsOf trunc nModes idx) = idx ∧ (digitsOf trunc nModes idx).length = nModes ∧
        ∀ d ∈ digitsOf trunc nModes idx, d < trunc) ∧
    (∀ ds : List Nat, ds.length = nModes → (∀ d ∈ ds, d < trunc) →
      digitsOf trunc nModes (indexOf trunc ds) = ds ∧ indexOf trunc ds < trunc ^ nModes) :=
  ⟨fun idx h => ⟨Proofs.C06B.indexOf_digitsOf trunc h0 nModes idx h, Proofs.C06B.digitsOf_length _ _ _,
      Proofs.C06B.digitsOf_lt trunc h0 nModes idx⟩,
   fun ds hl hd => Proofs.C06B.digitsOf_indexOf trunc h0 nModes ds hl hd⟩

example : bosonTermColumn 3 2 [(0, 1), (1, 0)] 5 = some (7, 4) ∧ bosonTermColumn 3 2 [(0, 1)] 7 = none ∧
    digitsOf 3 2 5 = [1, 2] ∧ digitsOf 3 2 7 = [2, 1] := by decide

/-! ### `expectation`, `variance` (glue over scipy / numpy) -/

/-- `Σ_{k < N} f k` -/
def sumTo (N : Nat) (f : Nat → GQ) : GQ := (List.range N).foldr (fun k acc => f k + acc) 0

/-- **`expectation_vec_sound`**: for a sparse matrix (entry list, duplicates summed) and a state vector,
`expectation(M, ψ) = numpy.dot(conj ψ, M * ψ)` is `⟨ψ|M|ψ⟩ = Σ_r conj ψ_r Σ_c M[r,c] ψ_c`
(the column-vector branch computes the same number). -/
theorem expectation_vec_sound (M : Mat) (hM : InRange M) (psi : List GQ) (hl : psi.length = M.rows) :
    expectationVec M psi =
      sumTo M.rows (fun r => GQ.conj (psi.getD r 0) * sumTo M.cols (fun c => M.get r c * psi.getD c 0)) :=
  expectationVec_eq M hM psi hl

/-- **`expectation_density_sound`**: for a density matrix the function returns `Tr(ρ M) = Σ_i Σ_k ρ[i,k] M[k,i]`. -/
theorem expectation_density_sound (M rho : Mat) (hR : InRange rho) :
    expectationDensity M rho = sumTo rho.rows (fun i => sumTo rho.cols (fun k => rho.get i k * M.get k i)) :=
  expectationDensity_eq M rho hR

/-- the two branches of `expectation` agree on a pure state: if `ρ[i,k] = ψ_i conj ψ_k` then
`expectation(M, ρ) = expectation(M, ψ)`. -/
theorem expectation_pure_consistent (M rho : Mat) (hM : InRange M) (hR : InRange rho) (psi : List GQ) (n : Nat)
    (hm : M.rows = n ∧ M.cols = n) (hr : rho.rows = n ∧ rho.cols = n) (hl : psi.length = n)
    (hrho : ∀ i k, i < n → k < n → rho.get i k = psi.getD i 0 * GQ.conj (psi.getD k 0)) :
    expectationDensity M rho = expectationVec M psi :=
  expectation_pure M rho hM hR psi n hm hr hl hrho

/-- **`variance_def`**: `variance(M, state) = expectation(M², state) - expectation(M, state)²` with the
matrix square `(M²)[r,c] = Σ_k M[r,k] M[k,c]`, for both state formats — `⟨M²⟩ - ⟨M⟩²`, NOT
`⟨M†M⟩ - ⟨M⟩²`: no Hermiticity is assumed. -/
theorem variance_def (M : Mat) (hM : InRange M) (psi : List GQ) (rho : Mat) :
    varianceVec M psi = expectationVec (matMul M M) psi - expectationVec M psi * expectationVec M psi ∧
    varianceDensity M rho =
      expectationDensity (matMul M M) rho - expectationDensity M rho * expectationDensity M rho ∧
    (∀ r c, (matMul M M).get r c = sumTo M.cols (fun k => M.get r k * M.get k c)) :=
  ⟨rfl, rfl, fun r c => matMul_get M M hM r c⟩

/-- for a HERMITIAN matrix the second moment is the squared norm of `Mψ`
(`⟨ψ|M²|ψ⟩ = numpy.vdot(Mψ, Mψ)`); a shortcut through `vdot(Mψ, Mψ)` is therefore sound only for
Hermitian operators. -/
theorem second_moment_hermitian_only (M : Mat) (hM : InRange M) (n : Nat) (hm : M.rows = n ∧ M.cols = n)
    (psi : List GQ) (hl : psi.length = n) (hH : ∀ r c, r < n → c < n → M.get r c = GQ.conj (M.get c r)) :
    expectationVec (matMul M M) psi = vdotc (sparseMatvec M psi) (sparseMatvec M psi) :=
  second_moment_hermitian M hM n hm psi hl hH

/-- … and it fails without Hermiticity: the nilpotent `M = |0⟩⟨1|` on `ψ = |1⟩` has `⟨M²⟩ = 0` but
`‖Mψ‖² = 1`; the variance of `M` in `ψ` is `0`. -/
example :
    expectationVec (matMul ⟨2, 2, [(0, 1, 1)]⟩ ⟨2, 2, [(0, 1, 1)]⟩) [0, 1] = 0 ∧
    vdotc (sparseMatvec ⟨2, 2, [(0, 1, 1)]⟩ [0, 1]) (sparseMatvec ⟨2, 2, [(0, 1, 1)]⟩ [0, 1]) = 1 ∧
    varianceVec ⟨2, 2, [(0, 1, 1)]⟩ [0, 1] = 0 := by
  refine ⟨by decide +kernel, by decide +kernel, by decide +kernel⟩

/-! ### `is_hermitian(sparse matrix)` and the routine chosen by `sparse_eigenspectrum` -/

/-- **`is_hermitian_sparse_sound`**: for a tolerance `> 0`, `is_hermitian(M)` on a sparse matrix answers
`True` exactly when EVERY entry of `M - M†` (diagonal included, both triangles) is smaller than the
tolerance (`|d|² < tol²`); entries at positions stored neither in `M` nor in `M†` are zero. -/
theorem is_hermitian_sparse_sound (tol : Rat) (htol : 0 < tol) (M : Mat) :
    isHermitianMat tol M = true ↔ ∀ r c, GQ.normSq (M.get r c - GQ.conj (M.get c r)) < tol * tol :=
  isHermitianMat_iff tol htol M

/-- in the exact regime (every non-zero entry of `M - M†` is at least the tolerance) the answer is `True`
iff `M[r,c] = conj M[c,r]` for all `r, c`; in particular `sparse_eigenspectrum` hands the matrix to
`numpy.linalg.eigvalsh` exactly for the Hermitian matrices and to `numpy.linalg.eigvals` otherwise
(the eigenvalue routines themselves are LAPACK and stay numeric). -/
theorem eigenspectrum_route_sound (tol : Rat) (htol : 0 < tol) (M : Mat)
    (hgap : ∀ r c, M.get r c ≠ GQ.conj (M.get c r) → tol * tol ≤ GQ.normSq (M.get r c - GQ.conj (M.get c r))) :
    eigenspectrumUsesEigvalsh tol M = true ↔ ∀ r c, M.get r c = GQ.conj (M.get c r) :=
  isHermitianMat_exact tol htol M hgap

/-- a matrix that is non-Hermitian only through its diagonal (`i·Z`) is rejected -/
example : isHermitianMat GQ.eqTol ⟨2, 2, [(0, 0, GQ.I), (1, 1, -GQ.I)]⟩ = false ∧
    isHermitianMat GQ.eqTol ⟨2, 2, [(0, 1, GQ.I), (1, 0, -GQ.I)]⟩ = true := by
  refine ⟨by decide +kernel, by decide +kernel⟩

/-! ### `LinearQubitOperator._matvec`, whole operator, matrix form -/

/-- **`matvec_sound`** — the Model function the driver executes against the Spec, for ALL inputs: for every
QubitOperator `a` whose terms are Pauli strings on qubits `< n`, every vector `x` of length `2^n` and
every basis state `u < 2^n`,
`matvec(a, x)[beIndex n u] = Σ_{s < 2^n} ⟨u|A|s⟩ · x[beIndex n s]`, `⟨u|A|s⟩ = Σ_terms c · ⟨u|t|s⟩`
(`Spec.C07.ampP`) — exactly the matrix elements `qubit_sparse_sound` proves for
`qubit_operator_sparse`; hence `LinearQubitOperator(a) · x = get_sparse_operator(a) · x` entry by entry. -/
theorem matvec_sound (n : Nat) (a : List (List (Nat × Nat) × GQ)) (x : List GQ) (hx : x.length = 2 ^ n)
    (ha : ∀ e ∈ a, e.1.Pairwise (fun f g => f.1 < g.1) ∧ ∀ f ∈ e.1, f.1 < n ∧ 1 ≤ f.2 ∧ f.2 ≤ 3)
    (u : Nat) (hu : u < 2 ^ n) :
    (matvec a x).getD (beIndex n u) 0 =
      sumTo (2 ^ n) (fun s =>
        (a.foldl (fun acc e => acc + e.2 * Spec.C07.ampP e.1 s u) 0) * x.getD (beIndex n s) 0) :=
  matvec_matrix n a x hx ha u hu

/-- the linear operator and the sparse matrix agree: with `L` the entry list of
`qubit_operator_sparse(a, n)`, `matvec(a, x)[r] = Σ_s L[r, beIndex n s] · x[beIndex n s]` for every row
`r = beIndex n u`. -/
theorem matvec_eq_sparse_matvec (n : Nat) (a : List (List (Nat × Nat) × GQ)) (x : List GQ) (hx : x.length = 2 ^ n)
    (hc : countQubitsQubit a ≤ n)
    (ha : ∀ e ∈ a, e.1.Pairwise (fun f g => f.1 < g.1) ∧ ∀ f ∈ e.1, f.1 < n ∧ 1 ≤ f.2 ∧ f.2 ≤ 3)
    (u : Nat) (hu : u < 2 ^ n) :
    ∃ L, qubitOperatorSparse (some n) a = some (2 ^ n, L) ∧
      (matvec a x).getD (beIndex n u) 0 =
        sumTo (2 ^ n) (fun s => getL L (beIndex n u) (beIndex n s) * x.getD (beIndex n s) 0) := by
  obtain ⟨L, hL, _⟩ := qubitSparse_get n a hc ha 0 u (Nat.pow_pos (by omega)) hu
  refine ⟨L, hL, ?_⟩
  rw [matvec_sound n a x hx ha u hu]
  apply sumN_congr
  intro s hs
  obtain ⟨L', hL', hg⟩ := qubitSparse_get n a hc ha s u hs hu
  rw [hL] at hL'
  simp only [Option.some.injEq, Prod.mk.injEq, true_and] at hL'
  subst hL'
  rw [hg]

/-- **`parallel_matvec_matrix`** — `ParallelLinearQubitOperator._matvec` against the Spec for ALL inputs and
EVERY completion order of the worker pool: for every process count `k`, every delivery order `perm` that is
a permutation of the group indices, every vector of length `2^n` and every basis state `u < 2^n`, the
entry `beIndex n u` of the result is `Σ_{s < 2^n} ⟨u|A|s⟩ · x[beIndex n s]` for the undivided operator. -/
theorem parallel_matvec_matrix (n k : Nat) (a : List (List (Nat × Nat) × GQ)) (x : List GQ)
    (hx : x.length = 2 ^ n)
    (ha : ∀ e ∈ a, e.1.Pairwise (fun f g => f.1 < g.1) ∧ ∀ f ∈ e.1, f.1 < n ∧ 1 ≤ f.2 ∧ f.2 ≤ 3)
    (perm : List Nat) (hperm : perm.Perm (List.range (operatorGroups k a).length))
    (u : Nat) (hu : u < 2 ^ n) :
    (parallelMatvec k a x perm).getD (beIndex n u) 0 =
      sumTo (2 ^ n) (fun s =>
        (a.foldl (fun acc e => acc + e.2 * Spec.C07.ampP e.1 s u) 0) * x.getD (beIndex n s) 0) := by
  rw [parallel_any_order k a x perm _ hperm, parallel_matvec_sound n k a x hx ha]
  exact matvec_sound n a x hx ha u hu

/-- `get_linear_qubit_operator_diagonal` is the diagonal of `qubit_operator_sparse`: with `L` the entry
list of the sparse matrix, `diagonal[i] = L[i, i]` for every index `i = beIndex n s`, `s < 2^n`. -/
theorem diagonal_eq_sparse_diagonal (n : Nat) (a : List (List (Nat × Nat) × GQ)) (hc : countQubitsQubit a ≤ n)
    (ha : ∀ e ∈ a, e.1.Pairwise (fun f g => f.1 < g.1) ∧ ∀ f ∈ e.1, f.1 < n ∧ 1 ≤ f.2 ∧ f.2 ≤ 3)
    (s : Nat) (hs : s < 2 ^ n) :
    ∃ v L, linearDiagonal (some n) a = some v ∧ qubitOperatorSparse (some n) a = some (2 ^ n, L) ∧
      v.getD (beIndex n s) 0 = getL L (beIndex n s) (beIndex n s) := by
  obtain ⟨v, hv, _, hd⟩ := diagonal_sound n a hc ha s hs
  obtain ⟨L, hL, hg⟩ := qubit_sparse_sound n a hc ha s s hs hs
  exact ⟨v, L, hv, hL, by rw [hd, hg]⟩

end OFV.C06
