/-
C13 — property theorems (model Hamiltonian generators): the lattice bond enumerations.
Helper lemmas live in OFV/Proofs/C13.lean.  Everything is about the definitions the driver
executes (`OFV.Model.C13.*`) and the Spec lattice graph (`OFV.Spec.C13.*`).

Not proved here (see OPEN_STATEMENTS in harness/c13.py): the operator-level statement
  `hubbard_sound : ⟦fermiHubbard a⟧ = docstring formula over `edges adjNN``
for all sizes — it is covered by the docstring / `spec.eq` oracles on the explored lattices.
-/
import OFV.Proofs.C13
import OFV.Proofs.C13Shape
import OFV.Proofs.C13Shape2
import OFV.Proofs.C13Grid
import OFV.Proofs.C13Grid2
import OFV.Proofs.C13Diag
import OFV.Proofs.C13Sound
import OFV.Proofs.C13Herm
import OFV.Proofs.C13Sound2
import OFV.Proofs.C13RG
import OFV.Proofs.C13Mel
import OFV.Proofs.C13Bose
import OFV.Proofs.C13Herm2
import OFV.Proofs.C13Exact
import OFV.Proofs.C13Exact2
import Mathlib.Tactic.NormNum

namespace OFV.C13
open OFV.Model OFV.Model.C13 OFV.Spec OFV.Spec.C13 OFV.Model.C13.Lattice

/-- **bonds_spec.**  For every lattice size and both boundary conditions, the bonds visited by the
site loop of `fermi_hubbard` / `bose_hubbard` (`_right_neighbor`, `_bottom_neighbor` and the
length-2 periodic rule), read as unordered pairs, are a duplicate-free enumeration of the Spec
edge set of the lattice graph (a permutation of `edges adjNN x y p`) — including `1×N`, `2×N`, `N×2`. -/
theorem bonds_spec (x y : Nat) (p : Bool) :
    ((bonds x y p).map norm).Perm (edges adjNN x y p) := by
  rcases Nat.eq_zero_or_pos x with rfl | hx
  · simp [bonds, edges, pairs]
  · exact (List.perm_ext_iff_of_nodup (normBonds_nodup hx) ((pairs_nodup _).filter _)).2
      (fun _ => (mem_normBonds hx).trans (mem_edges_adjNN hx).symm)

/-- each bond is counted once: no unordered pair is visited twice by the site loop -/
theorem bonds_nodup (x y : Nat) (p : Bool) : ((bonds x y p).map norm).Nodup :=
  (bonds_spec x y p).nodup_iff.2 ((pairs_nodup _).filter _)

/-- the site loop visits the unordered pair `{a, b}` iff the sites are adjacent in the Spec graph -/
theorem bonds_mem_iff (x y : Nat) (p : Bool) (a b : Nat) (hab : a < b) :
    (a, b) ∈ (bonds x y p).map norm ↔ b < x * y ∧ adjNN x y p a b = true := by
  rw [(bonds_spec x y p).mem_iff, edges, List.mem_filter, mem_pairs]
  simp [hab]

/-- `mean_field_dwave` uses its own neighbour rule; it enumerates the same bonds -/
theorem dwave_bonds_spec (x y : Nat) (p : Bool) :
    ((dwaveBonds x y p).map norm).Perm (edges adjNN x y p) := by
  rcases Nat.eq_zero_or_pos x with rfl | hx
  · simp [dwaveBonds, edges, pairs]
  · rw [dwaveBonds_eq_bonds p hx]; exact bonds_spec x y p

/-- `HubbardSquareLattice.neighbors_iter(ordered=False)` (horizontal then vertical neighbours) is a
duplicate-free enumeration of the same Spec edge set -/
theorem lattice_neighbors_spec (l : Lattice) (hx : 0 < l.x) :
    ((l.neighbors false).map norm).Perm (edges adjNN l.x l.y l.periodic) :=
  (List.perm_ext_iff_of_nodup (neighbors_norm_nodup l hx) ((pairs_nodup _).filter _)).2
    (fun _ => (mem_neighbors_norm hx).trans (mem_edges_adjNN hx).symm)

/-- **hubbard_generators_agree** (bond level): `fermi_hubbard`'s site loop and
`FermiHubbardModel`'s `'neighbor'` edge type range over the same unordered bonds, each once -/
theorem hubbard_generators_agree_bonds (l : Lattice) (hx : 0 < l.x) :
    ((bonds l.x l.y l.periodic).map norm).Perm ((l.neighbors false).map norm) :=
  (bonds_spec l.x l.y l.periodic).trans (lattice_neighbors_spec l hx).symm

/-- all bonds join two different sites of the lattice -/
theorem bonds_in_range (x y : Nat) (p : Bool) (e : Nat × Nat) (h : e ∈ (bonds x y p).map norm) :
    e.1 < e.2 ∧ e.2 < x * y := by
  rw [(bonds_spec x y p).mem_iff, edges, List.mem_filter, mem_pairs] at h
  exact h.1


/-- `neighbors_iter(ordered=True)` is the unordered enumeration followed by its mirror image:
every Spec edge occurs once in each orientation -/
theorem neighbors_ordered_perm (l : Lattice) :
    (l.neighbors true).Perm (l.neighbors false ++ (l.neighbors false).map Prod.swap) :=
  neighbors_ordered_perm' l

/-- `diagonal_neighbors_iter(ordered=False)` (the two diagonals of every plaquette, indices mod the
dimensions) is a duplicate-free enumeration of the Spec diagonal edge set, for all `x, y ≥ 1` and both
boundary conditions — including `y = 2` and open boundaries, where the code before the repair
duplicated / wrapped bonds -/
theorem diagonal_neighbors_spec (l : Lattice) (hx : 0 < l.x) :
    ((l.diagonalNeighbors false).map norm).Perm (edges adjD l.x l.y l.periodic) :=
  diagonal_perm_edges l hx

/-- the `'horizontal_neighbor'` and `'vertical_neighbor'` edge types on their own -/
theorem horizontal_neighbors_spec (l : Lattice) (hx : 0 < l.x) :
    ((l.horizontalNeighbors false).map norm).Perm (edges adjH l.x l.y l.periodic) :=
  horizontal_perm_edges l hx

theorem vertical_neighbors_spec (l : Lattice) (hx : 0 < l.x) :
    ((l.verticalNeighbors false).map norm).Perm (edges adjV l.x l.y l.periodic) :=
  vertical_perm_edges l hx

theorem diagonal_ordered_perm (l : Lattice) :
    (l.diagonalNeighbors true).Perm (l.diagonalNeighbors false ++ (l.diagonalNeighbors false).map Prod.swap) :=
  diagonal_ordered_perm' l

/-- `to_spin_orbital_index` is a bijection between (site, dof, spin) triples and `range(n_spin_orbitals)`:
different triples never share a mode -/
theorem spin_orbital_index_injective (l : Lattice) (s d σ s' d' σ' : Nat)
    (hd : d < l.nDofs) (hσ : σ < l.nSpinValues) (hd' : d' < l.nDofs) (hσ' : σ' < l.nSpinValues)
    (h : l.toSpinOrbitalIndex s d σ = l.toSpinOrbitalIndex s' d' σ') : s = s' ∧ d = d' ∧ σ = σ' :=
  toSpinOrbitalIndex_inj l hd hσ hd' hσ' h

theorem spin_orbital_index_lt (l : Lattice) (s d σ : Nat) (hs : s < l.nSites) (hd : d < l.nDofs)
    (hσ : σ < l.nSpinValues) : l.toSpinOrbitalIndex s d σ < l.nSites * l.nSpinOrbitalsPerSite :=
  toSpinOrbitalIndex_lt l hs hd hσ

/-- `spin_pairs_iter(spin_pairs, ordered)` yields exactly the documented spin pairs
(codes: 0 ALL, 1 SAME, otherwise DIFF) -/
theorem spin_pairs_spec (l : Lattice) (sp : Nat) (ordered : Bool) (s t : Nat) :
    (s, t) ∈ l.spinPairs sp ordered ↔ s < l.nSpinValues ∧ t < l.nSpinValues ∧
      (match sp with
       | 0 => ordered = true ∨ s ≤ t
       | 1 => s = t
       | _ => if ordered then s ≠ t else s < t) :=
  mem_spinPairs l sp ordered s t

/-! ### conservation laws from the term shapes

`charge w t` = change of the total mode weight caused by the ladder term `t`;
`Conserves w H` = every term of `H` has charge 0.  `w = 1`: particle number,
`w = szWeight = (-1)^mode`: `2 S_z`. -/

/-- Spec link: a ladder term changes the total weight of a Fock basis state by exactly its charge
(for the Spec action `actFTerm`, modes `< n`); a term of charge 0 preserves it. -/
theorem term_charge_sound (w : Nat → Int) (n : Nat) (t : Term) (s k s' : Nat)
    (hm : ∀ f ∈ t, f.1 < n) (h : actFTerm t s = some (k, s')) :
    wt w n s' = wt w n s + charge w t :=
  actFTerm_wt w n t s k s' hm h

/-- `fermi_hubbard` (spinless or spinful, any flags and couplings, any lattice) conserves the
particle number: every generated term has as many creation as annihilation operators -/
theorem fermi_hubbard_conserves_number (tol : Rat) (a : HubbardArgs) (spinless : Bool) :
    Conserves (fun _ => 1) (fermiHubbard tol a spinless) := by
  unfold fermiHubbard
  split
  · exact conserves_spinless (fun _ _ => rfl)
  · exact conserves_spinful (fun _ _ => ⟨rfl, rfl⟩)

/-- the spinful model conserves `N_up` and `N_down` separately, hence `S_z` -/
theorem fermi_hubbard_conserves_sz (tol : Rat) (a : HubbardArgs) :
    Conserves szWeight (spinfulFermiHubbard tol a) :=
  conserves_spinful (fun s r => ⟨by rw [sz_even, sz_even], by rw [sz_odd, sz_odd]⟩)

/-- consequence at Spec level: every term of `fermi_hubbard` maps a Fock basis state to a basis
state with the same number of particles -/
theorem fermi_hubbard_preserves_particle_number (tol : Rat) (a : HubbardArgs) (spinless : Bool)
    (e : Term × GQ) (he : e ∈ fermiHubbard tol a spinless) (n s k s' : Nat)
    (hm : ∀ f ∈ e.1, f.1 < n) (h : actFTerm e.1 s = some (k, s')) :
    wt (fun _ => 1) n s' = wt (fun _ => 1) n s := by
  have := actFTerm_wt (fun _ => 1) n e.1 s k s' hm h
  rw [fermi_hubbard_conserves_number tol a spinless e he] at this
  simpa using this

theorem bose_hubbard_conserves_number (tol : Rat) (a : HubbardArgs) :
    Conserves (fun _ => 1) (boseHubbard tol a) :=
  conserves_bose (fun _ _ => rfl)

/-- `mean_field_dwave` does not conserve the particle number (pairing terms) but conserves `S_z` -/
theorem mean_field_dwave_conserves_sz (tol : Rat) (a : HubbardArgs) :
    Conserves szWeight (meanFieldDwave tol a) :=
  conserves_dwave a

/-- `FermiHubbardModel.hamiltonian()` conserves the particle number for every parameter set -/
theorem fermi_hubbard_model_conserves_number (tol : Rat) (m : FHM) :
    Conserves (fun _ => 1) (m.hamiltonian tol) :=
  conserves_fhm m (fun _ _ => rfl)

/-- **FermiHubbardModel, spin-resolved conservation.**  `FermiHubbardModel.hamiltonian()` (any lattice, any list of
tunneling / interaction / potential parameters, any field, with or without particle-hole symmetry) conserves every
mode weight that depends on the spin index of `to_spin_orbital_index(site, dof, spin)` only: tunneling connects
equal spin indices, all other terms are products of number operators. -/
theorem fermi_hubbard_model_conserves_spin_resolved (tol : Rat) (m : FHM) (w : Nat → Int)
    (hw : SpinResolved m.lattice w) : Conserves w (m.hamiltonian tol) :=
  conserves_fhm_spin m hw

/-- `FermiHubbardModel.hamiltonian()` on a spinful lattice conserves `S_z` (closes the S_z item of the open
statements: it was covered by the `spec.eq` oracle only) -/
theorem fermi_hubbard_model_conserves_sz (tol : Rat) (m : FHM) (hs : m.lattice.spinless = false) :
    Conserves szWeight (m.hamiltonian tol) :=
  conserves_fhm_spin m (spinResolved_sz _ hs)

/-- … and the number of particles of each spin species `N_up` (`σ = 0`), `N_down` (`σ = 1`) separately -/
theorem fermi_hubbard_model_conserves_spin_species (tol : Rat) (m : FHM) (hs : m.lattice.spinless = false) (σ : Nat) :
    Conserves (spinCount σ) (m.hamiltonian tol) :=
  conserves_fhm_spin m (spinResolved_count _ hs σ)

/-- consequence at Spec level: every term of `FermiHubbardModel.hamiltonian()` on a spinful lattice maps a Fock
basis state to a basis state with the same `2 S_z` and the same `N_σ` -/
theorem fermi_hubbard_model_preserves_sz (tol : Rat) (m : FHM) (hs : m.lattice.spinless = false)
    (e : Term × GQ) (he : e ∈ m.hamiltonian tol) (n s k s' : Nat)
    (hm : ∀ f ∈ e.1, f.1 < n) (h : actFTerm e.1 s = some (k, s')) :
    wt szWeight n s' = wt szWeight n s ∧ ∀ σ, wt (spinCount σ) n s' = wt (spinCount σ) n s := by
  refine ⟨?_, fun σ => ?_⟩
  · have := actFTerm_wt szWeight n e.1 s k s' hm h
    rw [fermi_hubbard_model_conserves_sz tol m hs e he] at this
    simpa using this
  · have := actFTerm_wt (spinCount σ) n e.1 s k s' hm h
    rw [fermi_hubbard_model_conserves_spin_species tol m hs σ e he] at this
    simpa using this

/-- the `onsite` edge type of `site_pairs_iter`: exactly the pairs `(i, i)` of the sites, each once, in order -/
theorem site_pairs_onsite_spec (l : Lattice) (ordered : Bool) (i j : Nat) :
    ((i, j) ∈ l.sitePairs 0 ordered ↔ i = j ∧ i < l.nSites) ∧ (l.sitePairs 0 ordered).Nodup := by
  constructor
  · simp only [Lattice.sitePairs, List.mem_map, List.mem_range, Prod.mk.injEq]
    constructor
    · rintro ⟨a, ha, rfl, rfl⟩; exact ⟨rfl, ha⟩
    · rintro ⟨rfl, hi⟩; exact ⟨i, hi, rfl, rfl⟩
  · simp only [Lattice.sitePairs]
    exact List.Nodup.map (fun a b hab => (Prod.mk.inj hab).1) List.nodup_range

/-! ### operator-level soundness (dictionary semantics `den φ A = Σ c · φ τ` of C01)

`ExactSum tol [] pieces`: every `+=` of the site loop is in the exact regime (an intermediate coefficient is
negligible only if it is zero) — it holds for the dyadic couplings the harness generates. -/

/-- the site loop of `_spinless_fermi_hubbard_model` is the left fold of `+=` over the per-site pieces -/
theorem spinless_fermi_hubbard_is_fold (tol : Rat) (a : HubbardArgs) :
    spinlessFermiHubbard tol a = sumOps tol ((List.range (a.x * a.y)).flatMap (spinlessPieces tol a)) [] :=
  spinless_eq_sumOps tol a

/-- **hubbard_sound** (spinless `fermi_hubbard`; all lattice sizes, both boundary conditions, particle-hole flag
allowed): for every term functional `φ` whose bond contribution is orientation independent, the Model's output
denotes the sum over the *Spec edge set* of (hopping + repulsion) plus the chemical-potential terms -/
theorem spinless_hubbard_sound_edges (tol : Rat) (φ : Term → GQ) (a : HubbardArgs)
    (hex : ExactSum tol [] ((List.range (a.x * a.y)).flatMap (spinlessPieces tol a)))
    (hsym : ∀ i j, bondDen tol φ a (i, j) = bondDen tol φ a (j, i)) :
    den φ (spinlessFermiHubbard tol a) =
      gsumL ((edges adjNN a.x a.y a.periodic).map (bondDen tol φ a)) +
      gsumL ((List.range (a.x * a.y)).map fun s => den φ (numberOp .fermion s (-a.mu))) :=
  spinless_den_spec_edges tol φ a hex hsym

/-- **hubbard_sound, docstring form**: `H = -t Σ_⟨ij⟩ (a†_i a_j + a†_j a_i) + U Σ_⟨ij⟩ n_i n_j - μ Σ_i n_i` over the Spec
edge set, for a real hopping amplitude and every `φ` with `φ(n_i n_j) = φ(n_j n_i)` (every matrix element) -/
theorem spinless_hubbard_sound (tol : Rat) (φ : Term → GQ) (a : HubbardArgs) (hphs : a.phs = false)
    (hex : ExactSum tol [] ((List.range (a.x * a.y)).flatMap (spinlessPieces tol a)))
    (ht : a.t.conj = a.t) (hreg : GQ.isSmall tol (-a.t) = true → -a.t = 0)
    (hφ : ∀ i j, φ [(i, 1), (i, 0), (j, 1), (j, 0)] = φ [(j, 1), (j, 0), (i, 1), (i, 0)]) :
    den φ (spinlessFermiHubbard tol a) =
      gsumL ((edges adjNN a.x a.y a.periodic).map fun e =>
        (-a.t) * φ [(e.1, 1), (e.2, 0)] + (-a.t) * φ [(e.2, 1), (e.1, 0)] + a.u * φ [(e.1, 1), (e.1, 0), (e.2, 1), (e.2, 0)]) +
      gsumL ((List.range (a.x * a.y)).map fun s => (-a.mu) * φ [(s, 1), (s, 0)]) :=
  spinless_hubbard_sound' tol φ a hphs hex ht hreg hφ

/-- **hubbard_sound (spinful `fermi_hubbard`)**: every lattice size, both boundary conditions, any particle-hole flag and
magnetic field, real hopping amplitude; for EVERY term functional `φ` (no symmetry assumption) the Model's output
denotes `-t Σ_{⟨i,j⟩ ∈ Spec edges} Σ_σ (a†_{iσ} a_{jσ} + a†_{jσ} a_{iσ})` plus the on-site terms of every site
(`spin_site_terms` makes them explicit) -/
theorem spinful_hubbard_sound (tol : Rat) (φ : Term → GQ) (a : HubbardArgs)
    (hex : ExactSum tol [] ((List.range (a.x * a.y)).flatMap (spinfulPieces tol a)))
    (ht : a.t.conj = a.t) (hreg : GQ.isSmall tol (-a.t) = true → -a.t = 0) :
    den φ (spinfulFermiHubbard tol a) =
      gsumL ((edges adjNN a.x a.y a.periodic).map fun e =>
        ((-a.t) * φ [(2 * e.1, 1), (2 * e.2, 0)] + (-a.t) * φ [(2 * e.2, 1), (2 * e.1, 0)]) +
        ((-a.t) * φ [(2 * e.1 + 1, 1), (2 * e.2 + 1, 0)] + (-a.t) * φ [(2 * e.2 + 1, 1), (2 * e.1 + 1, 0)])) +
      gsumL ((List.range (a.x * a.y)).map (spinSiteDen tol φ a)) :=
  spinful_hubbard_sound' tol φ a hex ht hreg

/-- on-site terms of the spinful model: `U n_{i↑} n_{i↓} + (-μ-h) n_{i↑} + (-μ+h) n_{i↓}` -/
theorem spin_site_terms (tol : Rat) (φ : Term → GQ) (a : HubbardArgs) (hphs : a.phs = false) (s : Nat) :
    spinSiteDen tol φ a s =
      a.u * φ [(2 * s, 1), (2 * s, 0), (2 * s + 1, 1), (2 * s + 1, 0)] +
      ((-a.mu - a.h) * φ [(2 * s, 1), (2 * s, 0)] + (-a.mu + a.h) * φ [(2 * s + 1, 1), (2 * s + 1, 0)]) :=
  spinSiteDen_explicit tol φ a hphs s

/-- **hermitian_generators** (spinless `fermi_hubbard`; real `t`, `U`, `μ`; every lattice size, both boundary
conditions): with `φ†(τ) = conj φ(τ†)` (for `φ τ = ⟨t|τ|s⟩` this is `⟨s|τ|t⟩*`), the Model's output satisfies
`⟦H⟧_{φ†} = conj ⟦H⟧_φ`, i.e. `⟨t|H|s⟩ = ⟨s|H|t⟩*` -/
theorem spinless_hubbard_hermitian (tol : Rat) (φ : Term → GQ) (a : HubbardArgs) (hphs : a.phs = false)
    (hex : ExactSum tol [] ((List.range (a.x * a.y)).flatMap (spinlessPieces tol a)))
    (ht : a.t.conj = a.t) (hu : a.u.conj = a.u) (hmu : a.mu.conj = a.mu)
    (hreg : GQ.isSmall tol (-a.t) = true → -a.t = 0)
    (hφ : ∀ i j, φ [(i, 1), (i, 0), (j, 1), (j, 0)] = φ [(j, 1), (j, 0), (i, 1), (i, 0)]) :
    den (adjF φ) (spinlessFermiHubbard tol a) = (den φ (spinlessFermiHubbard tol a)).conj :=
  spinless_hubbard_hermitian' tol φ a hphs hex ht hu hmu hreg hφ

/-- in the Spec, number operators on different modes commute: `n_i n_j` and `n_j n_i` act identically on every basis
state (from the CAR lemmas of SpecCAR) -/
theorem spec_number_operators_commute (i j s : Nat) (hij : i ≠ j) :
    actFTerm [(i, 1), (i, 0), (j, 1), (j, 0)] s = actFTerm [(j, 1), (j, 0), (i, 1), (i, 0)] s :=
  actFTerm_nn_comm i j s hij

/-- **hubbard_sound against the Spec** (spinless `fermi_hubbard`; every lattice size, both boundary conditions; real
hopping amplitude; exact regime): every matrix element `⟨t| H |s⟩` of the Model's output, computed with the Spec action
`actFTerm`, is the matrix element of `-t Σ_⟨ij⟩ (a†_i a_j + a†_j a_i) + U Σ_⟨ij⟩ n_i n_j - μ Σ_i n_i` over the Spec
edge set — no hypothesis on the functional is left -/
theorem spinless_hubbard_sound_spec (tol : Rat) (s t : Nat) (a : HubbardArgs) (hphs : a.phs = false)
    (hex : ExactSum tol [] ((List.range (a.x * a.y)).flatMap (spinlessPieces tol a)))
    (ht : a.t.conj = a.t) (hreg : GQ.isSmall tol (-a.t) = true → -a.t = 0) :
    den (mel s t) (spinlessFermiHubbard tol a) =
      gsumL ((edges adjNN a.x a.y a.periodic).map fun e =>
        (-a.t) * mel s t [(e.1, 1), (e.2, 0)] + (-a.t) * mel s t [(e.2, 1), (e.1, 0)] +
          a.u * mel s t [(e.1, 1), (e.1, 0), (e.2, 1), (e.2, 0)]) +
      gsumL ((List.range (a.x * a.y)).map fun i => (-a.mu) * mel s t [(i, 1), (i, 0)]) :=
  spinless_hubbard_sound_mel tol s t a hphs hex ht hreg

/-- **exact_regime_of_grid.**  The exact-regime hypothesis `ExactSum` of the soundness theorems holds whenever every
coefficient of the start value and of every piece lies on a grid `(1/D) ℤ[i]` with `tol · D ≤ 1`: all intermediate
coefficients of the `+=` fold stay on the grid, and a grid point of modulus `< tol` is zero -/
theorem exact_regime_of_grid (D : Nat) (hD : 0 < D) (tol : Rat) (htol : tol * tol * ((D : Rat) * D) ≤ 1)
    (init : Op) (pieces : List Op) (hi : OpOnGrid D init) (hp : ∀ p ∈ pieces, OpOnGrid D p) :
    ExactSum tol init pieces :=
  exactSum_of_grid hD htol init pieces hi hp

/-- **hubbard_sound against the Spec, exact-regime hypothesis discharged** (spinless `fermi_hubbard`, every lattice
size, both boundary conditions): for real `t` and couplings `t, U, μ ∈ (1/D) ℤ[i]` with `tol · D ≤ 1` (all dyadic
couplings the harness generates, at `EQ_TOLERANCE`) every Spec matrix element of the Model's output is the matrix element
of the docstring Hamiltonian over the Spec edge set — no hypothesis about the `+=` steps is left -/
theorem spinless_hubbard_sound_spec_grid (D : Nat) (hD : 0 < D) (tol : Rat) (htol : tol * tol * ((D : Rat) * D) ≤ 1)
    (s t : Nat) (a : HubbardArgs) (hphs : a.phs = false)
    (hgt : OnGrid D a.t) (hgu : OnGrid D a.u) (hgmu : OnGrid D a.mu) (ht : a.t.conj = a.t) :
    den (mel s t) (spinlessFermiHubbard tol a) =
      gsumL ((edges adjNN a.x a.y a.periodic).map fun e =>
        (-a.t) * mel s t [(e.1, 1), (e.2, 0)] + (-a.t) * mel s t [(e.2, 1), (e.1, 0)] +
          a.u * mel s t [(e.1, 1), (e.1, 0), (e.2, 1), (e.2, 0)]) +
      gsumL ((List.range (a.x * a.y)).map fun i => (-a.mu) * mel s t [(i, 1), (i, 0)]) :=
  spinless_hubbard_sound_mel tol s t a hphs (spinless_exact_of_grid hD htol a hphs hgt hgu hgmu) ht
    (hopping_reg_of_grid hD htol hgt)

/-- the same for the spinful model (couplings `t, U, μ, h` on the grid), every term functional `φ` -/
theorem spinful_hubbard_sound_grid (D : Nat) (hD : 0 < D) (tol : Rat) (htol : tol * tol * ((D : Rat) * D) ≤ 1)
    (φ : Term → GQ) (a : HubbardArgs) (hphs : a.phs = false)
    (hgt : OnGrid D a.t) (hgu : OnGrid D a.u) (hgmu : OnGrid D a.mu) (hgh : OnGrid D a.h) (ht : a.t.conj = a.t) :
    den φ (spinfulFermiHubbard tol a) =
      gsumL ((edges adjNN a.x a.y a.periodic).map fun e =>
        ((-a.t) * φ [(2 * e.1, 1), (2 * e.2, 0)] + (-a.t) * φ [(2 * e.2, 1), (2 * e.1, 0)]) +
        ((-a.t) * φ [(2 * e.1 + 1, 1), (2 * e.2 + 1, 0)] + (-a.t) * φ [(2 * e.2 + 1, 1), (2 * e.1 + 1, 0)])) +
      gsumL ((List.range (a.x * a.y)).map (spinSiteDen tol φ a)) :=
  spinful_hubbard_sound' tol φ a (spinful_exact_of_grid hD htol a hphs hgt hgu hgmu hgh) ht
    (hopping_reg_of_grid hD htol hgt)

/-- non-vacuity of the grid hypotheses at `EQ_TOLERANCE = 1e-8`: quarter-integer couplings -/
example : GQ.eqTol * GQ.eqTol * (((4 : Nat) : Rat) * (4 : Nat)) ≤ 1 := by
  simp only [GQ.eqTol]; norm_num
example : OnGrid 4 (⟨3 / 4, -1 / 2⟩ : GQ) := ⟨3, -2, by norm_num, by norm_num⟩

/-- **hubbard_sound (`bose_hubbard`)**: every lattice size, both boundary conditions, real hopping amplitude, EVERY term
functional `φ`: the Model's output denotes `-t Σ_⟨ij⟩ (b†_i b_j + b†_j b_i) + V Σ_⟨ij⟩ n_i n_j` over the Spec edge set
(keys as BosonOperator stores them, `hopKey` / `nnKey`) plus the on-site `U/2 n(n-1) - μ n` terms of every site -/
theorem bose_hubbard_sound (tol : Rat) (φ : Term → GQ) (a : HubbardArgs)
    (hex : ExactSum tol [] ((List.range (a.x * a.y)).flatMap (bosePieces tol a)))
    (ht : a.t.conj = a.t) (hreg : GQ.isSmall tol (-a.t) = true → -a.t = 0) :
    den φ (boseHubbard tol a) =
      gsumL ((edges adjNN a.x a.y a.periodic).map fun e =>
        ((-a.t) * φ (hopKey e.1 e.2) + (-a.t) * φ (hopKey e.2 e.1)) + a.h * φ (nnKey e.1 e.2)) +
      gsumL ((List.range (a.x * a.y)).map (boseSiteDen tol φ a)) :=
  bose_hubbard_sound' tol φ a hex ht hreg

/-- **exact regime of all three site loops, particle-hole form included.**  For couplings on `(1/D) ℤ[i]` and
`tol · 4D ≤ 1` (the factors `1/2`, `1/4` of the particle-hole shift and of the on-site boson term refine the grid by 4)
every `+=` of the spinless / spinful `fermi_hubbard` and of the `bose_hubbard` site loop is in the exact regime: the
coefficient grid is preserved by `mk`, scalar multiples, `-=`, `+=` and products of ladder-operator dictionaries -/
theorem hubbard_exact_regime_of_grid (D : Nat) (hD : 0 < D) (tol : Rat)
    (htol : tol * tol * (((D * 4 : Nat) : Rat) * (D * 4 : Nat)) ≤ 1) (a : HubbardArgs)
    (hgt : OnGrid D a.t) (hgu : OnGrid D a.u) (hgmu : OnGrid D a.mu) (hgh : OnGrid D a.h) :
    ExactSum tol [] ((List.range (a.x * a.y)).flatMap (spinlessPieces tol a)) ∧
    ExactSum tol [] ((List.range (a.x * a.y)).flatMap (spinfulPieces tol a)) ∧
    ExactSum tol [] ((List.range (a.x * a.y)).flatMap (bosePieces tol a)) :=
  ⟨spinless_exact_of_grid4 hD htol a hgt hgu hgmu, spinful_exact_of_grid4 hD htol a hgt hgu hgmu hgh,
    bose_exact_of_grid4 hD htol a hgt hgu hgmu hgh⟩

/-- **hubbard_sound (`bose_hubbard`), exact-regime hypothesis discharged**: every lattice size, both boundary conditions,
real hopping amplitude, couplings on `(1/D) ℤ[i]` with `tol · 4D ≤ 1`, EVERY term functional `φ` — no hypothesis about
the `+=` steps is left -/
theorem bose_hubbard_sound_grid (D : Nat) (hD : 0 < D) (tol : Rat)
    (htol : tol * tol * (((D * 4 : Nat) : Rat) * (D * 4 : Nat)) ≤ 1) (φ : Term → GQ) (a : HubbardArgs)
    (hgt : OnGrid D a.t) (hgu : OnGrid D a.u) (hgmu : OnGrid D a.mu) (hgh : OnGrid D a.h) (ht : a.t.conj = a.t) :
    den φ (boseHubbard tol a) =
      gsumL ((edges adjNN a.x a.y a.periodic).map fun e =>
        ((-a.t) * φ (hopKey e.1 e.2) + (-a.t) * φ (hopKey e.2 e.1)) + a.h * φ (nnKey e.1 e.2)) +
      gsumL ((List.range (a.x * a.y)).map (boseSiteDen tol φ a)) :=
  bose_hubbard_sound' tol φ a (bose_exact_of_grid4 hD htol a hgt hgu hgmu hgh) ht (hopping_reg_of_grid4 hD htol hgt)

/-- the spinful model WITH or without the particle-hole shift, every term functional `φ` -/
theorem spinful_hubbard_sound_grid_phs (D : Nat) (hD : 0 < D) (tol : Rat)
    (htol : tol * tol * (((D * 4 : Nat) : Rat) * (D * 4 : Nat)) ≤ 1) (φ : Term → GQ) (a : HubbardArgs)
    (hgt : OnGrid D a.t) (hgu : OnGrid D a.u) (hgmu : OnGrid D a.mu) (hgh : OnGrid D a.h) (ht : a.t.conj = a.t) :
    den φ (spinfulFermiHubbard tol a) =
      gsumL ((edges adjNN a.x a.y a.periodic).map fun e =>
        ((-a.t) * φ [(2 * e.1, 1), (2 * e.2, 0)] + (-a.t) * φ [(2 * e.2, 1), (2 * e.1, 0)]) +
        ((-a.t) * φ [(2 * e.1 + 1, 1), (2 * e.2 + 1, 0)] + (-a.t) * φ [(2 * e.2 + 1, 1), (2 * e.1 + 1, 0)])) +
      gsumL ((List.range (a.x * a.y)).map (spinSiteDen tol φ a)) :=
  spinful_hubbard_sound' tol φ a (spinful_exact_of_grid4 hD htol a hgt hgu hgmu hgh) ht
    (hopping_reg_of_grid4 hD htol hgt)

/-- **hermitian_generators (spinful `fermi_hubbard`)**: real `t`, `U`, `μ`, `h`, every lattice size: every matrix element
of the Model's output computed with the Spec action satisfies `⟦H⟧_{φ†} = conj ⟦H⟧_φ` for `φ = mel s t`
(`φ†(τ) = conj φ(τ†)`) — the reordering `n_↑ n_↓ = n_↓ n_↑` is discharged on the Spec -/
theorem spinful_hubbard_hermitian (tol : Rat) (s t : Nat) (a : HubbardArgs) (hphs : a.phs = false)
    (hex : ExactSum tol [] ((List.range (a.x * a.y)).flatMap (spinfulPieces tol a)))
    (ht : a.t.conj = a.t) (hu : a.u.conj = a.u) (hmu : a.mu.conj = a.mu) (hh : a.h.conj = a.h)
    (hreg : GQ.isSmall tol (-a.t) = true → -a.t = 0) :
    den (adjF (mel s t)) (spinfulFermiHubbard tol a) = (den (mel s t) (spinfulFermiHubbard tol a)).conj :=
  spinful_hubbard_hermitian' tol (mel s t) a hphs hex ht hu hmu hh hreg (fun i => mel_nn_comm s t (2 * i) (2 * i + 1))

/-- **RichardsonGaudin, documented form** (every `n`, every `g`): in the exact regime (`ExactRG`: every `+` / `sum` step
of `qubit_operator`) the Model's `RichardsonGaudin(g, n).qubit_operator` denotes
`(Σ_p hc_p / 2)·1 + Σ_p (-(p + 1)) Z_p + (g/2) Σ_{p<q} (X_p X_q + Y_p Y_q)` with `hc_p = 2 (p + 1)` — the
DOCIHamiltonian form with `hr1 = g`, `hr2 = 0` (the `Z_p Z_q` terms vanish) -/
theorem richardson_gaudin_documented (tol : Rat) (φ : Term → GQ) (m : RG) (h : ExactRG tol m) :
    denOpt φ (m.qubitOperator tol) =
      (gsum ((List.range m.n).map m.hc) * half) * φ [] +
      gsumL ((List.range m.n).map fun p => (-(natGQ (p + 1))) * φ [(p, 3)]) +
      gsumL ((pairsLt m.n).map fun pq => (m.g * half) * φ [(pq.1, 1), (pq.2, 1)] + (m.g * half) * φ [(pq.1, 2), (pq.2, 2)]) :=
  rg_documented'' tol φ m h

/-- non-vacuity of the exact-regime hypothesis: the 1 × 1 lattice with `μ = 1` -/
example : ExactSum (1 / 100000000) []
    ((List.range (1 * 1)).flatMap (spinlessPieces (1 / 100000000) ⟨1, 1, 1, 1, 1, 0, false, false⟩)) := by
  have h : (List.range (1 * 1)) = [0] := by decide
  rw [h]
  simp only [List.flatMap_cons, List.flatMap_nil, List.append_nil, spinlessPieces, siteBonds, siteNeighbors,
    rightNeighbor, bottomNeighbor]
  refine ⟨⟨?_, trivial⟩, trivial⟩
  intro hs
  exfalso
  revert hs
  simp [Dict.getD, Dict.get?, GQ.isSmall, GQ.normSq, simplify]
  norm_num

/-! ### Grid index arithmetic -/

/-- **grid_index_bijection**: `grid_indices(orbital_id(c)) = c` for coordinates inside the grid
(`List.Forall₂ (· < ·) coords length`), for every dimension and every length tuple -/
theorem grid_indices_orbital_id (L cs : List Nat) (h : List.Forall₂ (· < ·) cs L) :
    gridIndices L (orbitalId L cs none) true = cs :=
  gridIndices_tensorFactor L cs h

/-- … and `orbital_id(grid_indices(q)) = q` for `q < num_points`, the indices lying inside the grid -/
theorem orbital_id_grid_indices (L : List Nat) (q : Nat) (h : q < numPoints L) :
    orbitalId L (gridIndices L q true) none = q ∧ List.Forall₂ (· < ·) (gridIndices L q true) L :=
  tensorFactor_gridIndices L q h

/-- spinful orbitals: the spin is the parity of the orbital id, the grid point the rest -/
theorem grid_indices_orbital_id_spin (L cs : List Nat) (σ : Nat) (hσ : σ < 2)
    (h : List.Forall₂ (· < ·) cs L) :
    gridIndices L (orbitalId L cs (some σ)) false = cs ∧ orbitalId L cs (some σ) % 2 = σ :=
  gridIndices_orbitalId_spin L cs σ hσ h

/-- **all_points_spec.**  `Grid.all_points_indices()` (every dimension, every shape) yields exactly the coordinate
tuples inside the grid, each once -/
theorem all_points_spec (L : List Nat) :
    (∀ cs, cs ∈ allPoints L ↔ List.Forall₂ (· < ·) cs L) ∧ (allPoints L).Nodup :=
  ⟨mem_allPoints L, allPoints_nodup L⟩

/-- **orbital_id is a bijection from the grid points onto `range(num_points)`**: the orbital ids of
`all_points_indices()` are a permutation of `0 … num_points - 1` (no orbital is skipped or visited twice by the loops
of the jellium generators) -/
theorem all_points_orbital_bijection (L : List Nat) :
    ((allPoints L).map fun cs => orbitalId L cs none).Perm (List.range (numPoints L)) :=
  allPoints_orbital_perm L

/-- **plane_wave_kinetic_structure_spec.**  For every grid shape the spinless `plane_wave_kinetic` loop adds exactly
one number operator per orbital `q < num_points`, with the momentum `index_to_momentum_ints(grid_indices(q))` -/
theorem plane_wave_kinetic_structure_spec (L : List Nat) :
    (planeWaveKineticStruct L true).Perm
      ((List.range (numPoints L)).map fun q => ([(q, 1), (q, 0)], momentumInts L (gridIndices L q true))) :=
  kineticStruct_spinless_perm L

/-! non-vacuity: concrete lattices with a length-2 periodic dimension -/
example : (edges adjNN 2 3 true).length = 9 := by decide
example : (bonds 2 3 true).map norm = [(0, 1), (0, 2), (1, 3), (2, 3), (2, 4), (3, 5), (4, 5), (0, 4), (1, 5)] := by decide
example : ((⟨3, 2, 1, false, true⟩ : Lattice).neighbors false).map norm
    = [(0, 1), (3, 4), (1, 2), (4, 5), (0, 2), (3, 5), (0, 3), (1, 4), (2, 5)] := by decide
example : (0 : Nat) < (⟨3, 2, 1, false, true⟩ : Lattice).x := by decide
example : ((⟨2, 2, 1, false, true⟩ : Lattice).diagonalNeighbors false).map norm = [(0, 3), (1, 2)] := by decide
example : (edges adjD 3 3 false).length = 8 := by decide
example : List.Forall₂ (· < ·) [2, 1] [3, 2] := by decide
example : orbitalId [3, 2] [2, 1] none = 5 ∧ gridIndices [3, 2] 5 true = [2, 1] := by decide
example : (5 : Nat) < numPoints [3, 2] := by decide
example : actFTerm [(2, 1), (0, 0)] 1 = some (0, 4) ∧ charge (fun _ => 1) [(2, 1), (0, 0)] = 0 := by decide
example : charge szWeight [(0, 1), (3, 1)] = 0 ∧ charge (fun _ => 1) [(0, 1), (3, 1)] = 2 := by decide

end OFV.C13
