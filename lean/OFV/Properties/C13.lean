/-
C13 — property theorems (model Hamiltonian generators): the lattice bond enumerations.
Helper lemmas live in OFV/Proofs/C13.lean.  Everything is about the definitions the driver
executes (`OFV.Model.C13.*`) and the Spec lattice graph (`OFV.Spec.C13.*`).

Not proved here (see OPEN_STATEMENTS in harness/c13.py): the operator-level statement
  `hubbard_sound : ⟦fermiHubbard a⟧ = docstring formula over `edges adjNN``
for all sizes — it is covered by the docstring / `spec.eq` oracles on the explored lattices.
-/
import OFV.Proofs.C13

namespace OFV.C13
open OFV.Model.C13 OFV.Spec.C13 OFV.Model.C13.Lattice

/-- **bonds_spec.**  For every lattice size and both boundary conditions, the bonds visited by the
site loop of `fermi_hubbard` / `bose_hubbard` (`_right_neighbor`, `_bottom_neighbor` and the
length-2 periodic rule), read as unordered pairs, are a duplicate-free enumeration of the Spec
edge set of the lattice graph (a permutation of `edges adjNN x y p`) — including `1×N`, `2×N`, `N×2`. -/
theorem bonds_spec (x y : Nat) (p : Bool) :
    ((bonds x y p).map norm).Perm (edges adjNN x y p) := by
  rcases Nat.eq_zero_or_pos x with rfl | hx
  · simp [bonds, edges, pairs]
  · exact (List.perm_ext_iff_of_nodup (normBonds_nodup hx) ((pairs_nodup _).filter _)).2
      (fun _ => (mem_normBonds hx).trans (mem_edges_adjNN hx).symm)

/-- each bond is counted once: no unordered pair is visited twice by the site loop -/
theorem bonds_nodup (x y : Nat) (p : Bool) : ((bonds x y p).map norm).Nodup :=
  (bonds_spec x y p).nodup_iff.2 ((pairs_nodup _).filter _)

/-- the site loop visits the unordered pair `{a, b}` iff the sites are adjacent in the Spec graph -/
theorem bonds_mem_iff (x y : Nat) (p : Bool) (a b : Nat) (hab : a < b) :
    (a, b) ∈ (bonds x y p).map norm ↔ b < x * y ∧ adjNN x y p a b = true := by
  rw [(bonds_spec x y p).mem_iff, edges, List.mem_filter, mem_pairs]
  simp [hab]

/-- `mean_field_dwave` uses its own neighbour rule; it enumerates the same bonds -/
theorem dwave_bonds_spec (x y : Nat) (p : Bool) :
    ((dwaveBonds x y p).map norm).Perm (edges adjNN x y p) := by
  rcases Nat.eq_zero_or_pos x with rfl | hx
  · simp [dwaveBonds, edges, pairs]
  · rw [dwaveBonds_eq_bonds p hx]; exact bonds_spec x y p

/-- `HubbardSquareLattice.neighbors_iter(ordered=False)` (horizontal then vertical neighbours) is a
duplicate-free enumeration of the same Spec edge set -/
theorem lattice_neighbors_spec (l : Lattice) (hx : 0 < l.x) :
    ((l.neighbors false).map norm).Perm (edges adjNN l.x l.y l.periodic) :=
  (List.perm_ext_iff_of_nodup (neighbors_norm_nodup l hx) ((pairs_nodup _).filter _)).2
    (fun _ => (mem_neighbors_norm hx).trans (mem_edges_adjNN hx).symm)

/-- **hubbard_generators_agree** (bond level): `fermi_hubbard`'s site loop and
`FermiHubbardModel`'s `'neighbor'` edge type range over the same unordered bonds, each once -/
theorem hubbard_generators_agree_bonds (l : Lattice) (hx : 0 < l.x) :
    ((bonds l.x l.y l.periodic).map norm).Perm ((l.neighbors false).map norm) :=
  (bonds_spec l.x l.y l.periodic).trans (lattice_neighbors_spec l hx).symm

/-- all bonds join two different sites of the lattice -/
theorem bonds_in_range (x y : Nat) (p : Bool) (e : Nat × Nat) (h : e ∈ (bonds x y p).map norm) :
    e.1 < e.2 ∧ e.2 < x * y := by
  rw [(bonds_spec x y p).mem_iff, edges, List.mem_filter, mem_pairs] at h
  exact h.1

/-! non-vacuity: concrete lattices with a length-2 periodic dimension -/
example : (edges adjNN 2 3 true).length = 9 := by decide
example : (bonds 2 3 true).map norm = [(0, 1), (0, 2), (1, 3), (2, 3), (2, 4), (3, 5), (4, 5), (0, 4), (1, 5)] := by decide
example : ((⟨3, 2, 1, false, true⟩ : Lattice).neighbors false).map norm
    = [(0, 1), (3, 4), (1, 2), (4, 5), (0, 2), (3, 5), (0, 3), (1, 4), (2, 5)] := by decide
example : (0 : Nat) < (⟨3, 2, 1, false, true⟩ : Lattice).x := by decide

end OFV.C13
