/-
C13 — property theorems.
-/
import OFV.Model.C13Lattice
import OFV.Spec.C13

namespace OFV.C13

end OFV.C13
