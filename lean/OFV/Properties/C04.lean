import OFV.Model.C04
import OFV.Spec.C04

namespace OFV.C04

end OFV.C04
