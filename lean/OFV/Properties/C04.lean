/-
C04 — Jordan-Wigner: property theorems.  `⟨x| A |m⟩` is read off the Spec's own evaluation
`GV.coeff (applyOp alg A [m]) [x]` (the function the Spec oracle `c04.jw_check` runs on the
implementation's outputs); fermionic Fock masks and qubit basis masks are identified (mode j on
qubit j).  Model functions are the ones `ofv-driver` executes (`OFV.Model.C04`).
`tol` is the deletion threshold of `SymbolicOperator.__iadd__` (`EQ_TOLERANCE`, extracted).
-/
import OFV.Model.C04
import OFV.Spec.C04
import OFV.Proofs.C04Term
import OFV.Proofs.C04Sum
import OFV.Proofs.C04OneBody
import OFV.Proofs.C04TwoBodyAll
import OFV.Proofs.C04Iop2
import OFV.Proofs.C04Dch
import OFV.Proofs.C04Rev4
import OFV.Proofs.C04JFinal
import OFV.Proofs.C04RevInv
import OFV.Proofs.C04JHam
import OFV.Proofs.C04Mul

namespace OFV.C04
open OFV OFV.Spec OFV.Model OFV.Model.C04 OFV.Sem

/-- A Z-string `Z_0 … Z_{j-1}` multiplies `|s⟩` by `(-1)^{number of occupied modes below j}` and
leaves the state alone — the parity the fermionic sign convention asks for (all `j`, all `s`). -/
theorem jw_zstring (j s : Nat) : actPTerm (zs 0 j) s = (2 * (countBelow s j % 2), s) := by
  rw [countBelow_eq_cnt]; exact actPTerm_zs s 0 j (Nat.zero_le _)

/-- `QubitOperator._simplify` (stable sort by qubit + merge through the extracted product table) never
changes what a Pauli string does to a basis state: for every string `t` (any length, any order,
repeated qubits) `coefficient · simplified(t)|s⟩ = t|s⟩`. -/
theorem jw_simplify_sound (t : List (Nat × Nat)) (h : ∀ f ∈ t, f.2 < 4) (s : Nat) :
    (actPTerm (simplifyQubit t).2 s).2 = (actPTerm t s).2 ∧
    (simplifyQubit t).1 * GQ.ipow (actPTerm (simplifyQubit t).2 s).1 = GQ.ipow (actPTerm t s).1 :=
  simplifyQubit_sound h s

/-- `QubitOperator.__imul__` is the operator product: `⟨x| a·b |m⟩ = Σ_r c_r i^{k_r} ⟨x| a |m_r⟩`, where the
string `r` of `b` (coefficient `c_r`) sends `|m⟩` to `i^{k_r}|m_r⟩` — for all dictionaries of Pauli strings. -/
theorem jw_mul_sound (a b : Model.Op) (ha : ∀ tc ∈ a, ∀ f ∈ tc.1, f.2 < 4) (hb : ∀ tc ∈ b, ∀ f ∈ tc.1, f.2 < 4)
    (m x : Nat) :
    GV.coeff (applyOp .qubit (mulOp .qubit a b) [m]) [x]
      = (b.map fun r => r.2 * GQ.ipow (actPTerm r.1 m).1
            * GV.coeff (applyOp .qubit a [(actPTerm r.1 m).2]) [x]).sum :=
  den_mulOp_right a b ha hb m x

/-- The entry `lookup_ladder_terms[(j, a)]` computed by the code is exactly
`½ Z_0…Z_{j-1} X_j ∓ (i/2) Z_0…Z_{j-1} Y_j` (− for creation), for every `j`. -/
theorem jw_ladder_closed (tol : Rat) (htol : tol * tol ≤ 1 / 4) (j a : Nat) :
    jwLadder tol j a = [(zs 0 j ++ [(j, 1)], half),
      (zs 0 j ++ [(j, 2)], 0 + if a != 0 then ⟨0, -(mkRat 1 2)⟩ else ⟨0, mkRat 1 2⟩)] :=
  jwLadder_eq tol htol j a

/-- **JW of one ladder operator is exact**: for every mode `j`, `a ∈ {0,1}` and all basis states,
`⟨x| jw(a_j^(†)) |m⟩ = ⟨x| a_j^(†) |m⟩`. -/
theorem jw_ladder_sound (tol : Rat) (htol : tol * tol ≤ 1 / 4) (j a : Nat) (ha : a ≤ 1) (m x : Nat) :
    GV.coeff (applyOp .qubit (jwLadder tol j a) [m]) [x]
      = GV.coeff (applyOp .fermion [([(j, a)], 1)] [m]) [x] := by
  have h := jwLadder_sum tol htol (j, a) m (fun y => if y = x then 1 else 0)
  have e : (if a = 0 then 0 else 1) = a := by split <;> omega
  change den .qubit _ _ _ = den .fermion _ _ _
  rw [den_eq_sum, den_cons, den_nil, termCoef_fermion]
  simp only [termCoef_qubit]
  have : (List.map (fun (tc : List (Nat × Nat) × GQ) => tc.2 *
        if (actPTerm tc.1 m).2 = x then GQ.ipow (actPTerm tc.1 m).1 else 0) (jwLadder tol j a)).sum
      = (List.map (fun (r : List (Nat × Nat) × GQ) => r.2 * GQ.ipow (actPTerm r.1 m).1 *
        (fun y => if y = x then (1 : GQ) else 0) (actPTerm r.1 m).2) (jwLadder tol j a)).sum := by
    congr 1; apply List.map_congr_left; intro r _
    show r.2 * (if (actPTerm r.1 m).2 = x then GQ.ipow (actPTerm r.1 m).1 else 0)
      = r.2 * GQ.ipow (actPTerm r.1 m).1 * (if (actPTerm r.1 m).2 = x then 1 else 0)
    split <;> ring
  rw [this, h]
  simp only [actJW, e, actFTerm, List.foldr_cons, List.foldr_nil]
  cases h2 : actF j a m with
  | none => simp
  | some km =>
    obtain ⟨k, m'⟩ := km
    have hs : GQ.sgn (k % 2) = GQ.sgn k := by unfold GQ.sgn; simp
    simp [hs]

/-- **JW of a term is exact** (the inner loop of `_jordan_wigner_fermion_operator`): for every product
of ladder operators `t` (any length, any modes, repetitions allowed) and coefficient `c`,
`⟨x| jwTerm(t, c) |m⟩ = ⟨x| c·t |m⟩` on all basis states. -/
theorem jw_term_exact (tol : Rat) (htol : tol * tol ≤ 1 / 4) (t : List (Nat × Nat)) (ht : ∀ f ∈ t, f.2 ≤ 1)
    (c : GQ) (m x : Nat) :
    GV.coeff (applyOp .qubit (jwTerm tol t c) [m]) [x] = GV.coeff (applyOp .fermion [(t, c)] [m]) [x] := by
  change den .qubit _ _ _ = den .fermion _ _ _
  unfold jwTerm
  rw [foldl_mulOp_sound (fun f => jwLadder tol f.1 f.2) actJW (jwLadder_valid tol htol)
    (jwLadder_sum tol htol) t _ (mk_const_valid c), actTermG_actJW t ht, den_cons, den_nil, termCoef_fermion]
  cases actFTerm t m with
  | none => simp
  | some km =>
    obtain ⟨k, m'⟩ := km
    simp only [den_mk_const]
    split <;> simp [mul_comm]

/-- **JW of a Majorana term is exact** (the inner loop of `_jordan_wigner_majorana_operator`):
`γ_{2j} ↦ Z_0…Z_{j-1}X_j`, `γ_{2j+1} ↦ Z_0…Z_{j-1}Y_j`, for every index list. -/
theorem jw_majorana_term_exact (t : List Nat) (c : GQ) (m x : Nat) :
    GV.coeff (applyOp .qubit (jwMajTerm t c) [m]) [x]
      = GV.coeff (applyOp .majorana [(t.map fun i => (i, 0), c)] [m]) [x] := by
  change den .qubit _ _ _ = den .majorana _ _ _
  have e : jwMajTerm t c = (t.map fun i => (i, 0)).foldl
      (fun w (f : Nat × Nat) => mulOp .qubit w (jwMajFactor f.1)) (mk .qubit [] c) := by
    unfold jwMajTerm; rw [List.foldl_map]
  rw [e, foldl_mulOp_sound (fun f => jwMajFactor f.1) actMaj jwMajFactor_valid jwMajFactor_sum _ _
    (mk_const_valid c), actTermG_actMaj, den_cons, den_nil, termCoef_majorana]
  simp only [den_mk_const]
  split <;> simp [mul_comm]

/-- `SymbolicOperator.__iadd__` denotes the sum on every exact run (`iaddOk`: no non-zero value was
deleted by the `|v| < EQ_TOLERANCE` test) — any algebra, any two dictionaries. -/
theorem jw_add_sound (alg : Alg) (tol : Rat) (a b : Model.Op) (h : iaddOk tol a b = true) (s x : St) :
    GV.coeff (applyOp alg (iadd tol a b) s) x = GV.coeff (applyOp alg a s) x + GV.coeff (applyOp alg b s) x :=
  den_iadd alg tol a b s x h

/-- **`jordan_wigner(FermionOperator)` is exact**: for every FermionOperator `A` (any number of terms,
any lengths, any modes) whose run is in the exact regime (`jwFermionOk`, evaluated by the driver on every
generated input), `⟨x| jw(A) |m⟩ = ⟨x| A |m⟩` for all basis states.
Full statement without the regime hypothesis is false only through the tolerance deletion of `+=`. -/
theorem jw_exact (tol : Rat) (htol : tol * tol ≤ 1 / 4) (A : Model.Op) (hA : ∀ tc ∈ A, ∀ f ∈ tc.1, f.2 ≤ 1)
    (hok : jwFermionOk tol A = true) (m x : Nat) :
    GV.coeff (applyOp .qubit (jwFermion tol A) [m]) [x] = GV.coeff (applyOp .fermion A [m]) [x] := by
  change den .qubit _ _ _ = den .fermion _ _ _
  have e : jwFermion tol A = (A.map fun tc => jwTerm tol tc.1 tc.2).foldl (fun acc img => iadd tol acc img) [] := by
    unfold jwFermion; rw [List.foldl_map]
  rw [e, den_sum_ok .qubit tol _ [m] [x] hok, den_eq_sum, List.map_map]
  congr 1
  apply List.map_congr_left
  intro tc htc
  have := jw_term_exact tol htol tc.1 (hA tc htc) tc.2 m x
  change den .qubit _ _ _ = den .fermion _ _ _ at this
  simp only [Function.comp]
  rw [this, den_cons, den_nil, add_zero]

/-- **`jordan_wigner(MajoranaOperator)` is exact** on every exact run, for all MajoranaOperators. -/
theorem jw_majorana_exact (tol : Rat) (A : Model.MOp) (hok : jwMajoranaOk tol A = true) (m x : Nat) :
    GV.coeff (applyOp .qubit (jwMajorana tol A) [m]) [x]
      = GV.coeff (applyOp .majorana (A.map fun tc => (tc.1.map fun i => (i, 0), tc.2)) [m]) [x] := by
  change den .qubit _ _ _ = den .majorana _ _ _
  have e : jwMajorana tol A = (A.map fun tc => jwMajTerm tc.1 tc.2).foldl (fun acc img => iadd tol acc img) [] := by
    unfold jwMajorana; rw [List.foldl_map]
  rw [e, den_sum_ok .qubit tol _ [m] [x] hok, den_eq_sum, List.map_map, List.map_map]
  congr 1
  apply List.map_congr_left
  intro tc _
  have := jw_majorana_term_exact tc.1 tc.2 m x
  change den .qubit _ _ _ = den .majorana _ _ _ at this
  simp only [Function.comp]
  rw [this, den_cons, den_nil, add_zero]

/-- **`jordan_wigner_one_body` is sound for all `p, q` and all complex `c`**: the strings
`XZ…ZX, YZ…ZY, YZ…ZX, XZ…ZY` with coefficients `(Re c, Re c, Im c, −Im c)/2` (conjugated when `p > q`;
`c/2 (1 − Z_p)` when `p = q`) act on every basis state like `c a†_p a_q + c̄ a†_q a_p` (`c a†_p a_p` on the
diagonal), on every exact run. -/
theorem jw_one_body_sound (tol : Rat) (p q : Nat) (c : GQ) (hok : jwOneBodyOk tol p q c = true) (m x : Nat) :
    GV.coeff (applyOp .qubit (jwOneBody tol p q c) [m]) [x]
      = GV.coeff (applyOp .fermion (Spec.C04.oneBodyOp p q c) [m]) [x] :=
  jwOneBody_sound tol p q c hok m x

/-- **`jordan_wigner_two_body` is sound for ALL `p, q, r, s` and all complex `c`**: every coincidence
pattern (`p = q` or `r = s`: zero; two, three or four distinct indices) and every relative order of the
indices (all 24 orderings of four distinct indices, with the sign tables `XYXX, YXXX, YYXY, YYYX` /
`XXYY, YYXX` and the `(p > q) xor (r > s)` flip; the four placements of the repeated index with their
conjugations).  The returned strings act on every basis state like `c a†_p a†_q a_r a_s + h.c.`
(counted once when `{p, q} = {r, s}`), on every exact run (`jwTwoBodyOk`, evaluated by the driver on
every generated input). -/
theorem jw_two_body_sound (tol : Rat) (p q r s : Nat) (c : GQ) (hok : jwTwoBodyOk tol p q r s c = true)
    (m x : Nat) :
    GV.coeff (applyOp .qubit (jwTwoBody tol p q r s c) [m]) [x]
      = GV.coeff (applyOp .fermion (Spec.C04.twoBodyOp p q r s c) [m]) [x] :=
  jwTwoBody_sound tol p q r s c hok m x

/-- **`jordan_wigner(InteractionOperator)` is sound**: for every size `n` and every pair of tensors that
denotes a Hermitian operator — `one[q,p] = conj one[p,q]`, and the *antisymmetrised* two-body tensor
`K[pq,rs] = T[p,q,r,s] − T[q,p,r,s] − T[p,q,s,r] + T[q,p,s,r]` (the only part of `T` the operator depends on)
satisfies `K[rs,pq] = conj K[pq,rs]`; real or complex, no further symmetry, and the *stored* entries need
not be Hermitian element by element (weight may sit on any of the antisymmetry-related entries, entries with
`p = q` or `r = s` are arbitrary) — the loops over index combinations with symmetrised coefficients
(`_jordan_wigner_interaction_op`: diagonal one-body, pairs `p < q`, pairs of pairs with the eight-entry
coefficient) produce an operator that acts on every basis state like
`const + Σ one[p,q] a†_p a_q + Σ two[p,q,r,s] a†_p a†_q a_r a_s` — i.e. like `jordan_wigner` of the equivalent
FermionOperator (`jw_exact`) — on every exact run (`jwInteractionOpOk`: all helper calls and all outer
`+=` exact; evaluated by the driver on every generated tensor). -/
theorem jw_interaction_op_sound (tol : Rat) (n : Nat) (const : GQ) (one two : List GQ)
    (h1 : ∀ p q, p < n → q < n → get1 n one q p = (get1 n one p q).conj)
    (h2 : ∀ p q r s, p < n → q < n → r < n → s < n →
      get2 n two r s p q - get2 n two s r p q - get2 n two r s q p + get2 n two s r q p
        = (get2 n two p q r s - get2 n two q p r s - get2 n two p q s r + get2 n two q p s r).conj)
    (hok : jwInteractionOpOk tol n const one two = true) (m x : Nat) :
    GV.coeff (applyOp .qubit (jwInteractionOp tol n const one two) [m]) [x]
      = GV.coeff (applyOp .fermion (Spec.C04.interactionOp n const one two) [m]) [x] :=
  jwInteractionOp_sound tol n const one two h1 h2 hok m x

/-- the special case of element-wise Hermitian storage (`two[s,r,q,p] = conj two[p,q,r,s]`) -/
theorem jw_interaction_op_sound_elementwise (tol : Rat) (n : Nat) (const : GQ) (one two : List GQ)
    (h1 : ∀ p q, p < n → q < n → get1 n one q p = (get1 n one p q).conj)
    (h2 : ∀ p q r s, p < n → q < n → r < n → s < n → get2 n two s r q p = (get2 n two p q r s).conj)
    (hok : jwInteractionOpOk tol n const one two = true) (m x : Nat) :
    GV.coeff (applyOp .qubit (jwInteractionOp tol n const one two) [m]) [x]
      = GV.coeff (applyOp .fermion (Spec.C04.interactionOp n const one two) [m]) [x] :=
  jwInteractionOp_sound tol n const one two h1 (Kc_herm_of_elementwise n two h2) hok m x

/-- **`jordan_wigner(DiagonalCoulombHamiltonian)` is sound**: for every `n`, Hermitian `T` and symmetric `V`
(as stored in the object) the strings written out by `_jordan_wigner_diagonal_coulomb_hamiltonian` act like
`const + Σ_{p,q} T[p,q] a†_p a_q + Σ_{p,q} V[p,q] n_p n_q` (all ordered pairs, the docstring formula) on
every basis state, on every exact run. -/
theorem jw_dch_sound (tol : Rat) (n : Nat) (const : GQ) (one two : List GQ)
    (h1 : ∀ p q, p < n → q < n → get1 n one q p = (get1 n one p q).conj)
    (h2 : ∀ p q, p < n → q < n → get1 n two q p = get1 n two p q)
    (hok : jwDCHOk tol n const one two = true) (m x : Nat) :
    GV.coeff (applyOp .qubit (jwDCH tol n const one two) [m]) [x]
      = GV.coeff (applyOp .fermion (Spec.C04.dchOp n const one two) [m]) [x] :=
  jwDCH_sound tol n const one two h1 h2 hok m x

/-- **`reverse_jordan_wigner` is sound**: for every QubitOperator `Q` (any number of strings, each a canonical
Pauli string as stored by `QubitOperator`), the FermionOperator built by the `while` loop — `Z_j ↦ 1 − 2 a†_j a_j`,
`X_j, Y_j ↦ (a†_j ± a_j)` times the Z-string absorbed into the working term, highest qubit first — acts on
every Fock basis state exactly like `Q` acts on the same bit mask, on every exact run. -/
theorem reverse_jw_sound (tol : Rat) (htol : tol * tol ≤ 1 / 4) (Q : Model.Op)
    (hQ : ∀ tc ∈ Q, SortedQ tc.1 ∧ (∀ f ∈ tc.1, f.2 < 4)) (hok : reverseJWOk tol Q = true) (m x : Nat) :
    GV.coeff (applyOp .fermion (reverseJW tol Q) [m]) [x] = GV.coeff (applyOp .qubit Q [m]) [x] :=
  reverseJW_sound tol htol Q hQ hok m x

/-- **`reverse_jordan_wigner` inverts `jordan_wigner`** as operators (hence "up to normal ordering"): for every
FermionOperator `A`, `reverse_jw (jw A)` acts on every basis state like `A`, on every exact run of both. -/
theorem reverse_jw_left_inverse (tol : Rat) (htol : tol * tol ≤ 1 / 4) (A : Model.Op)
    (hA : ∀ tc ∈ A, ∀ f ∈ tc.1, f.2 ≤ 1) (hok1 : jwFermionOk tol A = true)
    (hok2 : reverseJWOk tol (jwFermion tol A) = true) (m x : Nat) :
    GV.coeff (applyOp .fermion (reverseJW tol (jwFermion tol A)) [m]) [x] = GV.coeff (applyOp .fermion A [m]) [x] := by
  rw [reverse_jw_sound tol htol _ (jwFermion_canon_valid tol htol A) hok2 m x]
  exact jw_exact tol htol A hA hok1 m x

/-- `reverse_jordan_wigner` only emits creation and annihilation operators (every QubitOperator, no hypothesis) -/
theorem reverse_jw_ladder (tol : Rat) (Q : Model.Op) : ∀ tc ∈ reverseJW tol Q, ∀ f ∈ tc.1, f.2 ≤ 1 :=
  Jel.reverseJW_keys tol Q

/-- **`jordan_wigner` inverts `reverse_jordan_wigner`**: for every QubitOperator `Q` (any number of canonical
Pauli strings of `X`, `Y`, `Z` factors, any complex coefficients), `jordan_wigner(reverse_jordan_wigner(Q))` acts
on every basis state exactly like `Q` — on every exact run of both transforms (flags evaluated by the driver). -/
theorem reverse_jw_right_inverse (tol : Rat) (htol : tol * tol ≤ 1 / 4) (Q : Model.Op)
    (hQ : ∀ tc ∈ Q, SortedQ tc.1 ∧ (∀ f ∈ tc.1, f.2 < 4)) (hok1 : reverseJWOk tol Q = true)
    (hok2 : jwFermionOk tol (reverseJW tol Q) = true) (m x : Nat) :
    GV.coeff (applyOp .qubit (jwFermion tol (reverseJW tol Q)) [m]) [x] = GV.coeff (applyOp .qubit Q [m]) [x] := by
  rw [jw_exact tol htol _ (reverse_jw_ladder tol Q) hok2 m x]
  exact reverse_jw_sound tol htol Q hQ hok1 m x

/-- term level: a single Pauli string `c · σ_{q1} … σ_{qk}` (canonical, factors `X`/`Y`/`Z`) -/
theorem reverse_jw_right_inverse_term (tol : Rat) (htol : tol * tol ≤ 1 / 4) (t : List (Nat × Nat)) (c : GQ)
    (hS : SortedQ t) (hV : ∀ f ∈ t, f.2 < 4) (hok1 : reverseJWOk tol [(t, c)] = true)
    (hok2 : jwFermionOk tol (reverseJW tol [(t, c)]) = true) (m x : Nat) :
    GV.coeff (applyOp .qubit (jwFermion tol (reverseJW tol [(t, c)])) [m]) [x]
      = GV.coeff (applyOp .qubit [(t, c)] [m]) [x] :=
  reverse_jw_right_inverse tol htol [(t, c)]
    (by intro tc h; simp only [List.mem_singleton] at h; subst h; exact ⟨hS, hV⟩) hok1 hok2 m x

/-! ### dual-basis jellium: the direct Jordan-Wigner form over the exact index structure -/

/-- **`Grid.orbital_id` / `Grid.grid_indices` / `all_points_indices`** (every dimension, all lengths): the grid
points, numbered by `tensor_factor`, are exactly `0 .. n-1` (so sums over points are sums over site numbers),
`grid_indices` inverts the numbering, and shifting by a grid point modulo the lengths permutes the grid. -/
theorem jellium_grid_index_structure (l : List Nat) :
    (∀ F : Nat → GQ, ((C04J.allPoints l).map fun x => F (C04J.tensorFactor l x)).sum
        = ((List.range (C04J.prodL l)).map F).sum)
    ∧ (∀ x ∈ C04J.allPoints l, ∀ sl : Bool,
        C04J.gridIndices l (C04J.orbitalId l x (if sl then none else some 0)) sl = x
        ∧ C04J.gridIndices l (C04J.orbitalId l x (if sl then none else some 1)) sl = x)
    ∧ (∀ s ∈ C04J.allPoints l, ∀ G : List Nat → List Nat → GQ,
        ((C04J.allPoints l).map fun b => G b (C04J.shiftIdx l b s)).sum
          = ((C04J.allPoints l).map fun y => G (C04J.subIdx l y s) y).sum) := by
  refine ⟨?_, ?_, ?_⟩
  · intro F
    have := Jel.sum_allPoints l F
    simpa only [Jel.tensorFactor_eq] using this
  · intro x hx sl
    have hv := (Jel.allPoints_mem l x).1 hx
    cases sl with
    | true =>
      simp only [if_true, C04J.orbitalId, Jel.gridIndices_eq, Jel.tensorFactor_eq, Jel.gi_tf l x hv, and_self]
    | false =>
      simp only [Bool.false_eq_true, if_false, C04J.orbitalId, Jel.gridIndices_eq, Jel.tensorFactor_eq]
      have e0 : (Jel.tf l x * 2 + 0) / 2 = Jel.tf l x := by omega
      have e1 : (Jel.tf l x * 2 + 1) / 2 = Jel.tf l x := by omega
      rw [e0, e1, Jel.gi_tf l x hv]
      exact ⟨rfl, rfl⟩
  · intro s hs G
    exact Jel.shift_sum l s ((Jel.allPoints_mem l s).1 hs) G

/-- **`jordan_wigner_dual_basis_jellium` is sound**: for every grid (any number of dimensions, any lengths, any
cell), spinless or with spin, with or without the Madelung constant, the operator written out directly — identity,
local `Z`, `ZZ` for every pair, `XZ…ZX + YZ…ZY` for every equal-spin pair, with the momentum sums
`K(δ) = Σ_k cos(k·r_δ) k²/2n`, `P(δ) = Σ_k (2π/Ω) cos(k·r_δ)/k²` as abstract functions of the displacement
(`identity = nK(0) − nP(0)/2` (halved if spinless), `z = P(0)/2 − K(0)/2`, `zz = P(δ)/2`, `xzx = yzy = K(δ)/2`) —
has the matrix elements of `dual_basis_jellium_model`: `Σ K(y−x) a†_{x,σ} a_{y,σ} + Σ_{(x,σ)≠(y,σ')} P(y−x) n_{x,σ} n_{y,σ'}`
built by the double loop over lattice sites and shifts modulo the lengths.  Hypotheses on the abstract functions:
`K`, `P` even (`cos` is even), and `Σ_δ P(δ) = 0` (orthogonality of the non-zero momenta: this is what makes the
local-`Z` and identity coefficients of the direct form the right ones); both `+=` chains in the exact regime. -/
theorem jw_jellium_direct_sound (tol : Rat) (l : List Nat) (spinless : Bool) (kin pot : List Nat → GQ)
    (const : Option GQ)
    (hevenK : ∀ u ∈ C04J.allPoints l, ∀ v ∈ C04J.allPoints l, kin (C04J.subIdx l u v) = kin (C04J.subIdx l v u))
    (hevenP : ∀ u ∈ C04J.allPoints l, ∀ v ∈ C04J.allPoints l, pot (C04J.subIdx l u v) = pot (C04J.subIdx l v u))
    (hsum : ((C04J.allPoints l).map pot).sum = 0)
    (hokD : C04J.jwJelliumDirectOk tol l spinless kin pot const = true)
    (hokM : C04J.dualBasisModelOk tol l spinless kin pot const = true) (m x : Nat) :
    GV.coeff (applyOp .qubit (C04J.jwJelliumDirect tol l spinless kin pot const) [m]) [x]
      = GV.coeff (applyOp .fermion (C04J.dualBasisModel tol l spinless kin pot const) [m]) [x] :=
  Jel.jellium_direct_eq_model tol l spinless kin pot const
    (fun u v hu hv => hevenK u ((Jel.allPoints_mem l u).2 hu) v ((Jel.allPoints_mem l v).2 hv))
    (fun u v hu hv => hevenP u ((Jel.allPoints_mem l u).2 hu) v ((Jel.allPoints_mem l v).2 hv))
    hsum hokD hokM m x

/-- the same with all hypotheses as decidable flags (what the driver evaluates on every exact-table instance) -/
theorem jw_jellium_direct_sound_of_flags (tol : Rat) (l : List Nat) (spinless : Bool) (kin pot : List Nat → GQ)
    (const : Option GQ) (hhyp : C04J.jelliumHypOk l kin pot = true)
    (hokD : C04J.jwJelliumDirectOk tol l spinless kin pot const = true)
    (hokM : C04J.dualBasisModelOk tol l spinless kin pot const = true) (m x : Nat) :
    GV.coeff (applyOp .qubit (C04J.jwJelliumDirect tol l spinless kin pot const) [m]) [x]
      = GV.coeff (applyOp .fermion (C04J.dualBasisModel tol l spinless kin pot const) [m]) [x] := by
  unfold C04J.jelliumHypOk at hhyp
  simp only [Bool.and_eq_true, List.all_eq_true, beq_iff_eq] at hhyp
  obtain ⟨he, hs⟩ := hhyp
  exact jw_jellium_direct_sound tol l spinless kin pot const
    (fun u hu v hv => (he u hu v hv).1) (fun u hu v hv => (he u hu v hv).2) hs hokD hokM m x

/-- … hence it **equals `jordan_wigner` of the dual-basis FermionOperator** built from the same coefficient
functions (as operators on every basis state), all three runs exact -/
theorem jw_jellium_direct_eq_jordan_wigner (tol : Rat) (htol : tol * tol ≤ 1 / 4) (l : List Nat) (spinless : Bool)
    (kin pot : List Nat → GQ) (const : Option GQ)
    (hevenK : ∀ u ∈ C04J.allPoints l, ∀ v ∈ C04J.allPoints l, kin (C04J.subIdx l u v) = kin (C04J.subIdx l v u))
    (hevenP : ∀ u ∈ C04J.allPoints l, ∀ v ∈ C04J.allPoints l, pot (C04J.subIdx l u v) = pot (C04J.subIdx l v u))
    (hsum : ((C04J.allPoints l).map pot).sum = 0)
    (hokD : C04J.jwJelliumDirectOk tol l spinless kin pot const = true)
    (hokM : C04J.dualBasisModelOk tol l spinless kin pot const = true)
    (hokJ : jwFermionOk tol (C04J.dualBasisModel tol l spinless kin pot const) = true) (m x : Nat) :
    GV.coeff (applyOp .qubit (C04J.jwJelliumDirect tol l spinless kin pot const) [m]) [x]
      = GV.coeff (applyOp .qubit (jwFermion tol (C04J.dualBasisModel tol l spinless kin pot const)) [m]) [x] := by
  rw [jw_jellium_direct_sound tol l spinless kin pot const hevenK hevenP hsum hokD hokM m x]
  exact (jw_exact tol htol _ (Jel.model_ladder tol l spinless kin pot const) hokJ m x).symm

/-- **`jordan_wigner_dual_basis_hamiltonian` is sound**: the jellium direct form plus, for every non-zero momentum
`k`, qubit `p` and nucleus `j`, the pair `QubitOperator((), c) - QubitOperator(Z_p, c)` with
`c = ext k (site p) j = (-2π/Ω)/k² Z_j cos(k·(R_j − r_p))` has the matrix elements of
`plane_wave_hamiltonian(plane_wave=False)` = `dual_basis_jellium_model + dual_basis_external_potential`
(`Σ_{x,j,k,σ} 2 ext k x j · n_{x,σ}`, built as "first term assigned, the others `+=`") — every grid (all dimensions and
lengths), spinless or with spin, any number of nuclei, the coefficient table `ext` and the zero-momentum test
abstract; hypotheses on `K`, `P` as in `jw_jellium_direct_sound` (one decidable flag), both runs exact. -/
theorem jw_dual_basis_hamiltonian_sound (tol : Rat) (l : List Nat) (spinless : Bool) (kin pot : List Nat → GQ)
    (nNuc : Nat) (skipK : List Nat → Bool) (ext : List Nat → List Nat → Nat → GQ)
    (hhyp : C04J.jelliumHypOk l kin pot = true)
    (hokD : C04J.jwDualBasisHamOk tol l spinless kin pot nNuc skipK ext = true)
    (hokM : C04J.dualBasisHamModelOk tol l spinless kin pot nNuc skipK ext = true) (m x : Nat) :
    GV.coeff (applyOp .qubit (C04J.jwDualBasisHam tol l spinless kin pot nNuc skipK ext) [m]) [x]
      = GV.coeff (applyOp .fermion (C04J.dualBasisHamModel tol l spinless kin pot nNuc skipK ext) [m]) [x] := by
  unfold C04J.jelliumHypOk at hhyp
  simp only [Bool.and_eq_true, List.all_eq_true, beq_iff_eq] at hhyp
  obtain ⟨he, hs⟩ := hhyp
  exact Jel.dualBasisHam_sound tol l spinless kin pot nNuc skipK ext
    (fun u v hu hv => (he u ((Jel.allPoints_mem l u).2 hu) v ((Jel.allPoints_mem l v).2 hv)).1)
    (fun u v hu hv => (he u ((Jel.allPoints_mem l u).2 hu) v ((Jel.allPoints_mem l v).2 hv)).2)
    hs hokD hokM m x

/-! ### `jordan_wigner` is an algebra homomorphism that preserves Hermiticity (operator level, every input) -/

/-- **multiplicativity**: `jordan_wigner(A) * jordan_wigner(B)` (QubitOperator product) has the matrix elements of
`A * B` (FermionOperator product), hence of `jordan_wigner(A * B)` — every pair of FermionOperators, every pair of
basis states; exact-regime flags of the three transforms -/
theorem jw_multiplicative (tol : Rat) (htol : tol * tol ≤ 1 / 4) (A B : Model.Op)
    (hA : ∀ tc ∈ A, ∀ f ∈ tc.1, f.2 ≤ 1) (hB : ∀ tc ∈ B, ∀ f ∈ tc.1, f.2 ≤ 1)
    (hokA : jwFermionOk tol A = true) (hokB : jwFermionOk tol B = true)
    (hokAB : jwFermionOk tol (mulOp .fermion A B) = true) (m x : Nat) :
    GV.coeff (applyOp .qubit (mulOp .qubit (jwFermion tol A) (jwFermion tol B)) [m]) [x]
        = GV.coeff (applyOp .fermion (mulOp .fermion A B) [m]) [x]
    ∧ GV.coeff (applyOp .qubit (jwFermion tol (mulOp .fermion A B)) [m]) [x]
        = GV.coeff (applyOp .qubit (mulOp .qubit (jwFermion tol A) (jwFermion tol B)) [m]) [x] := by
  have h1 : GV.coeff (applyOp .qubit (mulOp .qubit (jwFermion tol A) (jwFermion tol B)) [m]) [x]
      = GV.coeff (applyOp .fermion (mulOp .fermion A B) [m]) [x] :=
    Jel.mul_compose (jwFermion tol A) (jwFermion tol B) A B
      (fun tc h => (jwFermion_canon_valid tol htol A tc h).2) (fun tc h => (jwFermion_canon_valid tol htol B tc h).2)
      (fun y x' => jw_exact tol htol A hA hokA y x') (fun y x' => jw_exact tol htol B hB hokB y x') m x
  refine ⟨h1, ?_⟩
  rw [h1]
  exact jw_exact tol htol _ (Jel.mulOpF_keys (fun tc h => hA tc h) (fun tc h => hB tc h)) hokAB m x

/-- **linearity**: `jordan_wigner(A + c B)` has the matrix elements of `jordan_wigner(A) + c jordan_wigner(B)` -/
theorem jw_linear (tol : Rat) (htol : tol * tol ≤ 1 / 4) (A B : Model.Op) (c : GQ)
    (hA : ∀ tc ∈ A, ∀ f ∈ tc.1, f.2 ≤ 1) (hB : ∀ tc ∈ B, ∀ f ∈ tc.1, f.2 ≤ 1)
    (hokA : jwFermionOk tol A = true) (hokB : jwFermionOk tol B = true)
    (hadd : iaddOk tol A (smul c B) = true) (hokS : jwFermionOk tol (iadd tol A (smul c B)) = true) (m x : Nat) :
    GV.coeff (applyOp .qubit (jwFermion tol (iadd tol A (smul c B))) [m]) [x]
      = GV.coeff (applyOp .qubit (jwFermion tol A) [m]) [x] + c * GV.coeff (applyOp .qubit (jwFermion tol B) [m]) [x] := by
  have hS : ∀ tc ∈ iadd tol A (smul c B), ∀ f ∈ tc.1, f.2 ≤ 1 :=
    Jel.iadd_keys (P := Jel.Ladder) tol hA (Jel.smul_keys (P := Jel.Ladder) c hB)
  rw [jw_exact tol htol _ hS hokS m x, jw_exact tol htol A hA hokA m x, jw_exact tol htol B hB hokB m x]
  change den .fermion _ _ _ = den .fermion _ _ _ + c * den .fermion _ _ _
  rw [den_iadd .fermion tol _ _ _ _ hadd, Sem.den_smul]

/-- **Hermiticity is preserved**: if the FermionOperator `A` is Hermitian as an operator
(`⟨x|A|m⟩ = conj ⟨m|A|x⟩` for all basis states) then so is `jordan_wigner(A)`, and conversely (the transform is faithful) -/
theorem jw_hermitian_iff (tol : Rat) (htol : tol * tol ≤ 1 / 4) (A : Model.Op)
    (hA : ∀ tc ∈ A, ∀ f ∈ tc.1, f.2 ≤ 1) (hok : jwFermionOk tol A = true) :
    (∀ m x, GV.coeff (applyOp .qubit (jwFermion tol A) [m]) [x]
        = (GV.coeff (applyOp .qubit (jwFermion tol A) [x]) [m]).conj)
    ↔ (∀ m x, GV.coeff (applyOp .fermion A [m]) [x] = (GV.coeff (applyOp .fermion A [x]) [m]).conj) := by
  constructor
  · intro h m x
    rw [← jw_exact tol htol A hA hok m x, ← jw_exact tol htol A hA hok x m]; exact h m x
  · intro h m x
    rw [jw_exact tol htol A hA hok m x, jw_exact tol htol A hA hok x m]; exact h m x

/-- **faithfulness**: two FermionOperators have the same Jordan-Wigner image (as operators) exactly when they are the
same operator -/
theorem jw_faithful (tol : Rat) (htol : tol * tol ≤ 1 / 4) (A B : Model.Op)
    (hA : ∀ tc ∈ A, ∀ f ∈ tc.1, f.2 ≤ 1) (hB : ∀ tc ∈ B, ∀ f ∈ tc.1, f.2 ≤ 1)
    (hokA : jwFermionOk tol A = true) (hokB : jwFermionOk tol B = true) :
    (∀ m x, GV.coeff (applyOp .qubit (jwFermion tol A) [m]) [x] = GV.coeff (applyOp .qubit (jwFermion tol B) [m]) [x])
    ↔ (∀ m x, GV.coeff (applyOp .fermion A [m]) [x] = GV.coeff (applyOp .fermion B [m]) [x]) := by
  constructor
  · intro h m x
    rw [← jw_exact tol htol A hA hokA m x, ← jw_exact tol htol B hB hokB m x]; exact h m x
  · intro h m x
    rw [jw_exact tol htol A hA hokA m x, jw_exact tol htol B hB hokB m x]; exact h m x

/-! ### non-vacuity -/

/-- the exact-regime hypotheses of `jw_multiplicative` / `jw_linear` on concrete operators with cancellations -/
example :
    let A : Model.Op := [([(2, 1), (0, 0)], ⟨mkRat 1 2, 1⟩), ([(1, 1)], ⟨-2, 0⟩)]
    let B : Model.Op := [([(0, 1), (2, 0)], ⟨mkRat 3 4, 0⟩), ([(1, 0), (1, 1)], ⟨0, -1⟩)]
    jwFermionOk Generated.eqTolerance A = true ∧ jwFermionOk Generated.eqTolerance B = true
    ∧ jwFermionOk Generated.eqTolerance (mulOp .fermion A B) = true
    ∧ iaddOk Generated.eqTolerance A (smul ⟨0, 2⟩ B) = true
    ∧ jwFermionOk Generated.eqTolerance (iadd Generated.eqTolerance A (smul ⟨0, 2⟩ B)) = true := by
  intro A B
  refine ⟨by decide +kernel, by decide +kernel, by decide +kernel, by decide +kernel, by decide +kernel⟩


/-- the threshold the driver runs with satisfies the hypothesis of the theorems -/
example : Generated.eqTolerance * Generated.eqTolerance ≤ 1 / 4 := by
  unfold Generated.eqTolerance; norm_num [Rat.mkRat_eq_div]

/-- a term with repeated modes and both kinds of ladder operators satisfies `ht` -/
example : ∀ f ∈ [(3, 1), (0, 0), (3, 0), (1, 1)], f.2 ≤ 1 := by decide

/-- a Pauli string with repeated qubits out of order satisfies the hypothesis of `jw_simplify_sound` -/
example : ∀ f ∈ [(2, 1), (0, 3), (2, 2), (0, 3)], f.2 < 4 := by decide

/-- the exact-regime hypothesis holds for a concrete operator with cancelling and repeated terms
(`2 a†_1 a_0 - ½ a_0 a†_1 + i a†_2`), evaluated by the kernel on the Model with the live tolerance -/
example : jwFermionOk Generated.eqTolerance
    [([(1, 1), (0, 0)], ⟨2, 0⟩), ([(0, 0), (1, 1)], ⟨-(mkRat 1 2), 0⟩), ([(2, 1)], ⟨0, 1⟩)] = true := by
  decide +kernel

/-- exact-regime hypothesis of `jw_one_body_sound` on concrete inputs: `p > q` with a complex coefficient,
a purely imaginary one (two strings get coefficient 0 and are dropped exactly), and the diagonal -/
example : jwOneBodyOk Generated.eqTolerance 5 2 ⟨mkRat 3 4, -2⟩ = true
    ∧ jwOneBodyOk Generated.eqTolerance 0 3 ⟨0, mkRat 1 8⟩ = true
    ∧ jwOneBodyOk Generated.eqTolerance 4 4 ⟨-1, 0⟩ = true := by
  decide +kernel

/-- exact-regime hypothesis of `jw_two_body_sound` on concrete inputs: four distinct indices out of
order with a complex coefficient, a repeated index lying between the other two, and the diagonal -/
example : jwTwoBodyOk Generated.eqTolerance 4 1 0 3 ⟨mkRat 3 4, -2⟩ = true
    ∧ jwTwoBodyOk Generated.eqTolerance 2 5 0 2 ⟨0, mkRat 1 8⟩ = true
    ∧ jwTwoBodyOk Generated.eqTolerance 3 1 1 3 ⟨-1, 0⟩ = true := by
  decide +kernel

/-- a complex Hermitian 2-orbital InteractionOperator satisfying all hypotheses of
`jw_interaction_op_sound_elementwise` -/
example :
    let one : List GQ := [⟨1, 0⟩, ⟨1, 1⟩, ⟨1, -1⟩, ⟨-2, 0⟩]
    let two : List GQ := [0, 0, 0, 0, 0, ⟨0, 1⟩, ⟨mkRat 3 2, 0⟩, 0, 0, ⟨mkRat 1 2, 0⟩, ⟨0, -1⟩, 0, 0, 0, 0, 0]
    (∀ p q, p < 2 → q < 2 → get1 2 one q p = (get1 2 one p q).conj)
    ∧ (∀ p q r s, p < 2 → q < 2 → r < 2 → s < 2 → get2 2 two s r q p = (get2 2 two p q r s).conj)
    ∧ jwInteractionOpOk Generated.eqTolerance 2 ⟨mkRat 1 2, 0⟩ one two = true := by
  refine ⟨?_, ?_, by decide +kernel⟩
  · intro p q hp hq
    have : p = 0 ∨ p = 1 := by omega
    have : q = 0 ∨ q = 1 := by omega
    rcases ‹p = 0 ∨ _› with rfl | rfl <;> rcases ‹q = 0 ∨ _› with rfl | rfl <;> decide +kernel
  · intro p q r s hp hq hr hs
    have : p = 0 ∨ p = 1 := by omega
    have : q = 0 ∨ q = 1 := by omega
    have : r = 0 ∨ r = 1 := by omega
    have : s = 0 ∨ s = 1 := by omega
    rcases ‹p = 0 ∨ _› with rfl | rfl <;> rcases ‹q = 0 ∨ _› with rfl | rfl <;>
      rcases ‹r = 0 ∨ _› with rfl | rfl <;> rcases ‹s = 0 ∨ _› with rfl | rfl <;> decide +kernel

/-- a Hermitian 2-orbital InteractionOperator in NON-canonical storage — `two[0,1,1,0] = 3/2 + i` and
`two[1,0,1,0] = i` (the imaginary weight cancels between the antisymmetry-related entries, the antisymmetrised
entry is the real `3/2`), plus a junk entry `two[0,0,1,0] = 7 + 3i` on which the operator does not depend:
the tensor is not Hermitian element by element, yet satisfies the (operator-level) hypotheses of
`jw_interaction_op_sound` -/
example :
    let one : List GQ := [⟨1, 0⟩, ⟨1, 1⟩, ⟨1, -1⟩, ⟨-2, 0⟩]
    let two : List GQ := [0, 0, ⟨7, 3⟩, 0, 0, 0, ⟨mkRat 3 2, 1⟩, 0, 0, 0, ⟨0, 1⟩, 0, 0, 0, 0, 0]
    (∀ p q, p < 2 → q < 2 → get1 2 one q p = (get1 2 one p q).conj)
    ∧ (∀ p q r s, p < 2 → q < 2 → r < 2 → s < 2 →
        get2 2 two r s p q - get2 2 two s r p q - get2 2 two r s q p + get2 2 two s r q p
          = (get2 2 two p q r s - get2 2 two q p r s - get2 2 two p q s r + get2 2 two q p s r).conj)
    ∧ ¬ (∀ p q r s, p < 2 → q < 2 → r < 2 → s < 2 → get2 2 two s r q p = (get2 2 two p q r s).conj)
    ∧ jwInteractionOpOk Generated.eqTolerance 2 ⟨mkRat 1 2, 0⟩ one two = true := by
  refine ⟨?_, ?_, ?_, by decide +kernel⟩
  · intro p q hp hq
    have : p = 0 ∨ p = 1 := by omega
    have : q = 0 ∨ q = 1 := by omega
    rcases ‹p = 0 ∨ _› with rfl | rfl <;> rcases ‹q = 0 ∨ _› with rfl | rfl <;> decide +kernel
  · intro p q r s hp hq hr hs
    have : p = 0 ∨ p = 1 := by omega
    have : q = 0 ∨ q = 1 := by omega
    have : r = 0 ∨ r = 1 := by omega
    have : s = 0 ∨ s = 1 := by omega
    rcases ‹p = 0 ∨ _› with rfl | rfl <;> rcases ‹q = 0 ∨ _› with rfl | rfl <;>
      rcases ‹r = 0 ∨ _› with rfl | rfl <;> rcases ‹s = 0 ∨ _› with rfl | rfl <;> decide +kernel
  · intro h
    have := h 0 0 1 0 (by omega) (by omega) (by omega) (by omega)
    revert this
    decide +kernel

/-- exact-regime hypothesis of `jw_dch_sound` on a concrete 3-orbital Hamiltonian (complex hopping) -/
example : jwDCHOk Generated.eqTolerance 3 ⟨mkRat 3 4, 0⟩
    [⟨1, 0⟩, ⟨1, 1⟩, 0, ⟨1, -1⟩, ⟨-2, 0⟩, ⟨0, mkRat 1 2⟩, 0, ⟨0, -(mkRat 1 2)⟩, ⟨3, 0⟩]
    [0, ⟨mkRat 1 2, 0⟩, ⟨-1, 0⟩, ⟨mkRat 1 2, 0⟩, 0, 0, ⟨-1, 0⟩, 0, 0] = true := by
  decide +kernel

/-! ### statements of C04 that are NOT proved here (covered by correspondence + Spec oracle only; see
`OPEN_STATEMENTS` in harness/c04.py)

* the exact-regime hypotheses (`jw…Ok`) cannot be dropped: `+=` deletes values below `EQ_TOLERANCE`.
* linearity / multiplicativity / compatibility with Hermitian conjugation of `jordan_wigner` as separate
  statements (they follow from `jw_exact` + the homomorphism theorems of the Spec semantics, C01).
* the dual-basis jellium helpers: the index structure and the operator identity ARE theorems
  (`jw_jellium_direct_sound`, momentum sums abstract); that the floating-point momentum sums of the library are
  even and satisfy `Σ_δ P(δ) = 0` up to rounding is checked numerically by the harness only;
  `jordan_wigner_dual_basis_hamiltonian` likewise (`jw_dual_basis_hamiltonian_sound`, table `ext` abstract). -/

/-- all hypotheses of `jw_jellium_direct_sound` on a concrete 2-D grid with unequal lengths `3 × 2`, spinless
(6 qubits; the spinful case is exercised by the harness) and with a constant: tables of `K` and `P` that are even and with `Σ P = 0` -/
example :
    let l := [3, 2]
    let kin := C04J.tableFn l [⟨2, 0⟩, ⟨-1, 0⟩, ⟨-1, 0⟩, ⟨mkRat 1 2, 0⟩, ⟨mkRat 1 4, 0⟩, ⟨mkRat 1 4, 0⟩]
    let pot := C04J.tableFn l [⟨1, 0⟩, ⟨-(mkRat 1 2), 0⟩, ⟨-(mkRat 1 2), 0⟩, ⟨mkRat 1 2, 0⟩, ⟨-(mkRat 1 4), 0⟩, ⟨-(mkRat 1 4), 0⟩]
    (∀ u ∈ C04J.allPoints l, ∀ v ∈ C04J.allPoints l, kin (C04J.subIdx l u v) = kin (C04J.subIdx l v u))
    ∧ (∀ u ∈ C04J.allPoints l, ∀ v ∈ C04J.allPoints l, pot (C04J.subIdx l u v) = pot (C04J.subIdx l v u))
    ∧ ((C04J.allPoints l).map pot).sum = 0
    ∧ C04J.jwJelliumDirectOk Generated.eqTolerance l true kin pot (some ⟨mkRat 7 4, 0⟩) = true
    ∧ C04J.dualBasisModelOk Generated.eqTolerance l true kin pot (some ⟨mkRat 7 4, 0⟩) = true := by
  refine ⟨by decide +kernel, by decide +kernel, by decide +kernel, by decide +kernel, by decide +kernel⟩

/-- all hypotheses of `jw_dual_basis_hamiltonian_sound` on a concrete instance: 1-D grid of 3 points with spin
(6 qubits), two nuclei, momentum index 1 is the zero momentum -/
example :
    let l := [3]
    let kin := C04J.tableFn l [⟨2, 0⟩, ⟨-1, 0⟩, ⟨-1, 0⟩]
    let pot := C04J.tableFn l [⟨1, 0⟩, ⟨-(mkRat 1 2), 0⟩, ⟨-(mkRat 1 2), 0⟩]
    let skipK : List Nat → Bool := fun k => k == [1]
    let ext : List Nat → List Nat → Nat → GQ := fun k x j =>
      if (k.headD 0 + x.headD 0 + j) % 3 == 0 then ⟨-(j + 1 : Nat), 0⟩ else ⟨mkRat (j + 1) 2, 0⟩
    C04J.jelliumHypOk l kin pot = true
    ∧ C04J.jwDualBasisHamOk Generated.eqTolerance l false kin pot 2 skipK ext = true
    ∧ C04J.dualBasisHamModelOk Generated.eqTolerance l false kin pot 2 skipK ext = true := by
  refine ⟨by decide +kernel, by decide +kernel, by decide +kernel⟩

/-- hypotheses of `reverse_jw_right_inverse` on a concrete QubitOperator with `X`, `Y`, `Z` strings and complex
coefficients (kernel-evaluated) -/
example :
    let Q : Model.Op := [([(0, 1), (1, 3), (3, 2)], ⟨mkRat 1 2, -1⟩), ([(2, 3)], ⟨0, 2⟩), ([(1, 2), (2, 1)], ⟨-3, 0⟩)]
    (∀ tc ∈ Q, SortedQ tc.1 ∧ (∀ f ∈ tc.1, f.2 < 4))
      ∧ reverseJWOk Generated.eqTolerance Q = true
      ∧ jwFermionOk Generated.eqTolerance (reverseJW Generated.eqTolerance Q) = true := by
  refine ⟨?_, by decide +kernel, by decide +kernel⟩
  unfold SortedQ
  decide +kernel

/-- exact-regime hypotheses of `reverse_jw_left_inverse` on a concrete operator (kernel-evaluated) -/
example :
    let A : Model.Op := [([(2, 1), (0, 0)], ⟨2, 0⟩), ([(1, 1)], ⟨0, mkRat 1 2⟩)]
    jwFermionOk Generated.eqTolerance A = true
      ∧ reverseJWOk Generated.eqTolerance (jwFermion Generated.eqTolerance A) = true := by
  decide +kernel

end OFV.C04
