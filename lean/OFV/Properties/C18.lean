/- C18 — property theorems (placeholder while the harness is built). -/
import OFV.Model.C18
import OFV.Model.C18Qubit
import OFV.Spec.C18

namespace OFV.C18

end OFV.C18
