/-
C18 — property theorems (measurement schedules).  Helper lemmas live in OFV/Proofs/C18*.lean.
Every theorem is about the functions the driver executes (OFV.Model.C18 / C18Qubit) and the
executable Spec predicates the oracle evaluates on the implementation's yields (OFV.Spec.C18).
-/
import OFV.Proofs.C18PairBetween
import OFV.Proofs.C18PairWithin
import OFV.Proofs.C18Padding
import OFV.Proofs.C18Cover
import OFV.Proofs.C18Binary
import OFV.Proofs.C18Tpb
import OFV.Proofs.C18Partition
import OFV.Proofs.C18Pauli
import OFV.Proofs.C18Async
import OFV.Proofs.C18Pws4
import OFV.Proofs.C18Pws5
import OFV.Proofs.C18Binned
import OFV.Proofs.C18Valid
import OFV.Proofs.C18Explicit
import OFV.Proofs.C18Helpers
import OFV.Proofs.C18Once
import OFV.Proofs.C18TpbPerm

namespace OFV.C18
open OFV.Model.C18 OFV.Spec.C18 OFV.Proofs.C18

/-- `pair_between`, every offset, every pair of fragment lengths: each yield uses every label of
both fragments exactly once, in pairs plus `|len1 - len2|` bare leftovers. -/
theorem pair_between_matching (f1 f2 : List L) (off : Nat) :
    (pairBetween f1 f2 off).all
      (isMatchingOf (f1 ++ f2) (max f1.length f2.length - min f1.length f2.length)) = true := by
  simp only [List.all_eq_true, pairBetween, List.mem_map]
  rintro p ⟨io, _, rfl⟩
  obtain ⟨w, pm, s⟩ := pairBetweenAt_matching f1 f2 io
  simp [isMatchingOf, w, s, List.isPerm_iff.mpr pm]

/-- `pair_between` (offset 0), all fragment lengths: matchings with leftovers, and every cross pair
`(a ∈ frag1, b ∈ frag2)` occurs in exactly one yield. -/
theorem pair_between_spec (f1 f2 : List L) (hnd : (f1 ++ f2).Nodup) :
    pairBetweenOk f1 f2 (pairBetween f1 f2 0) = true := by
  simp [pairBetweenOk, pair_between_matching f1 f2 0, crossOnce_pairBetween f1 f2 hnd]

example : pairBetweenOk [some 0, some 1] [some 2, some 3, some 4]
    (pairBetween [some 0, some 1] [some 2, some 3, some 4] 0) = true :=
  pair_between_spec _ _ (by decide)

/-- `pair_within`, every list length (strong induction, four residues mod 4, `None` padding):
there are `len - 1 + len % 2` yields and each is a perfect matching of the labels
(exactly one bare label when the length is odd, and it is the last element). -/
theorem pair_within_matching (labels : List L) (hnd : labels.Nodup) (hnone : none ∉ labels) :
    (pairWithin labels).length = labels.length - 1 + labels.length % 2 ∧
    (pairWithin labels).all (isMatchingOf labels (labels.length % 2)) = true := by
  have h := pairWithinAux_inv labels.length labels (Nat.le_refl _) hnd
    (fun hm => hnone (List.dropLast_subset _ hm))
  refine ⟨h.1, ?_⟩
  simp only [List.all_eq_true]
  intro p hp
  have g := h.2 p hp
  have hs := g.shape.singles
  simp only [isMatchingOf, g.shape.wellFormed, List.isPerm_iff.mpr g.perm, Bool.true_and, beq_iff_eq, hs]
  by_cases e : labels.length % 2 = 1 <;> simp [e]; omega

example : (pairWithin [some 5, some 6, some 7, some 8, some 9]).all
    (isMatchingOf [some 5, some 6, some 7, some 8, some 9] 1) = true :=
  (pair_within_matching _ (by decide) (by decide)).2

/-- `pair_within`, every list length: the yields are perfect matchings and together they contain
every unordered pair of labels (the full statement of the property for `pair_within`).  The proof
aligns the bare labels of the two recursive halves through a parametricity argument
(`pairWithinAux_rel`): the pairs skipped by the start offset of `pair_between` are exactly the
pairs of bare labels produced by the `zip` loop. -/
theorem pair_within_spec (labels : List L) (hnd : labels.Nodup) (hnone : none ∉ labels) :
    pairWithinOk labels (pairWithin labels) = true := by
  simp only [pairWithinOk, Bool.and_eq_true]
  refine ⟨(pair_within_matching labels hnd hnone).2, ?_⟩
  simp only [coversPairs, List.all_eq_true, Bool.or_eq_true, beq_iff_eq, List.any_eq_true]
  intro a ha b hb
  by_cases hab : a = b
  · exact Or.inl hab
  · obtain ⟨p, hp, h⟩ := pairWithin_covers labels hnd hnone a ha b hb hab
    refine Or.inr ⟨p, hp, ?_⟩
    simp only [hasPair, Bool.or_eq_true, List.contains_iff_mem]
    exact h

example : pairWithinOk [some 1, some 2, some 3, some 4, some 5, some 6]
    (pairWithin [some 1, some 2, some 3, some 4, some 5, some 6]) = true :=
  pair_within_spec _ (by decide) (by decide)

/-- `_get_padding`: the result is the smallest `L' ≥ bin_size` that has no divisor in
`[2, num_bins - 1)`; the `while True` search terminates (Bertrand's postulate bounds the Model's fuel). -/
theorem get_padding_spec (numBins binSize : Nat) :
    isPadding numBins binSize (getPadding numBins binSize) = true := by
  obtain ⟨h1, h2, h3⟩ := getPadding_spec numBins binSize
  simp only [isPadding, Bool.and_eq_true, decide_eq_true_eq, List.all_eq_true, List.mem_range,
    Bool.or_eq_true, smallDivisor_eq, h2, Bool.not_false, and_true]
  refine ⟨h1, ?_⟩
  intro t ht
  by_cases e : t < binSize
  · exact Or.inl e
  · exact Or.inr (h3 t (by omega) ht)

example : getPadding 8 8 = 11 := by decide

/-- `binary_partition_iterator` (default number of iterations), every list length ≥ 2: every yield is a
2-partition of the qubits and every pair of qubits is split by at least one yield — the distance of two
unsplit positions doubles with every divide-and-riffle step, and `2^⌈log₂ n⌉ ≥ n`. -/
theorem binary_partition_spec (l : List Nat) (hnd : l.Nodup) (h2 : 2 ≤ l.length) :
    ∃ ys, binaryPartition l none = some ys ∧ splitsAll l 2 (ys.map (fun p => [p.1, p.2])) = true :=
  OFV.Proofs.C18Binary.binaryPartition_spec l hnd h2

example : ∃ ys, binaryPartition [4, 7, 1, 9, 3] none = some ys ∧
    splitsAll [4, 7, 1, 9, 3] 2 (ys.map (fun p => [p.1, p.2])) = true :=
  binary_partition_spec _ (by decide) (by decide)

/-- `pair_within_simultaneously`, every number of labels: for every four labels at least one of their
three splits into two pairs is co-scheduled (both pairs occur in the same yield).  Induction over the
levels of `_gen_partitions`: four labels in a part are either separated 2 + 2 by its halves (first
stage of the next level: all combinations of rounds of two sibling parts occur, by the loop bounds), or
3 + 1 (second stage: `pair_within` over the parts pairs the two parts, and
`_gen_pairings_between_partitions` combines a round of a half with all cross pairs of the other
halves — going down one level while the three labels stay in one half), or they stay together and the
argument repeats one level down.
The binned / symmetric variants are still open. -/
theorem pws_covers (labels : List L) (hl : labels.Nodup) (hn : none ∉ labels) (a b c d : L)
    (hnd : [a, b, c, d].Nodup) (hmem : ∀ s ∈ [a, b, c, d], s ∈ labels) :
    quadOk (pairWithinSimultaneously labels) a b c d = true :=
  OFV.Proofs.C18Pws.pws_covers labels hl hn a b c d hnd hmem

example : quadOk (pairWithinSimultaneously ((List.range 9).map some)) (some 0) (some 3) (some 5) (some 8) = true :=
  pws_covers _ (by decide) (by decide) _ _ _ _ (by decide) (by decide)

/-- `pair_within_simultaneously`, the full Spec predicate the oracle evaluates (one bin), every number
of labels: every yield uses no label twice and only given labels (in fact every yield is a perfect
matching of *all* labels: pairs plus bare labels), and every four labels have a co-scheduled split. -/
theorem pws_spec (labels : List L) (hl : labels.Nodup) (hn : none ∉ labels) :
    quadsCovered [labels] (pairWithinSimultaneously labels) = true :=
  OFV.Proofs.C18Pws.pws_spec labels hl hn

example : quadsCovered [(List.range 7).map some] (pairWithinSimultaneously ((List.range 7).map some)) = true :=
  pws_spec _ (by decide) (by decide)

/-- `_asynchronous_iter(iterators, flatten=True)`, all three branches (single-entry edge case,
`_asynchronous_iter_small_lists` through `binary_partition_iterator`, and the padded Latin-square pattern
`(j·k + l) mod L'` with `L'` from `_get_padding`): when some iterator is non-empty and no result is the
empty tuple the call succeeds and any two results of two different iterators occur together in a yield. -/
theorem async_iter_covers (lists : List (List (Pairing L))) (hne : ∀ l ∈ lists, ∀ x ∈ l, x ≠ [])
    (hsome : ∃ l ∈ lists, l ≠ []) : ∃ ys, asyncIter lists = some ys ∧ asyncCovers lists ys = true := by
  obtain ⟨ys, h1, h2⟩ := OFV.Proofs.C18Async.asyncIter_covers lists hne hsome
  refine ⟨ys, h1, ?_⟩
  simp only [asyncCovers, List.all_eq_true, Bool.or_eq_true, beq_iff_eq, List.any_eq_true, Bool.and_eq_true,
    within, List.contains_iff_mem]
  intro li hli lj hlj
  obtain ⟨A, a⟩ := li
  obtain ⟨B, b⟩ := lj
  by_cases hab : a = b
  · exact Or.inl hab
  · right
    have ha := List.mem_zipIdx hli
    have hb := List.mem_zipIdx hlj
    simp only [Nat.zero_add, Nat.sub_zero] at ha hb
    obtain ⟨_, ha1, ha2⟩ := ha
    obtain ⟨_, hb1, hb2⟩ := hb
    intro x hx y hy
    simp only at hx hy
    rw [ha2] at hx; rw [hb2] at hy
    by_cases hlt : a < b
    · obtain ⟨r, hr, s1, s2⟩ := h2 a b hlt hb1 x y hx hy
      exact ⟨r, hr, s1, s2⟩
    · obtain ⟨r, hr, s1, s2⟩ := h2 b a (by omega) ha1 y x hy hx
      exact ⟨r, hr, s2, s1⟩

/-- `pair_within_simultaneously_binned`, any `2^s` bins of pairwise distinct labels (not all empty): the
call does not raise, and for every four labels whose bin indices XOR to 0 (the labels allowed by the
symmetries) one of their three splits is co-scheduled.  Same bin: `pws_covers` through `_parallel_iter`;
two bins: `pair_within_spec` through `_asynchronous_iter`; four bins: one of the three pairings uses a
gap below `num_bins / 2` (the two numbers with the top bit set XOR to one without), and the cross pairs of
`pair_between_spec` are brought together by `_asynchronous_iter`. -/
theorem pws_binned_covers (bins : List (List L)) (s : Nat) (hlen : bins.length = 2 ^ s)
    (hnd : bins.flatten.Nodup) (hnn : none ∉ bins.flatten) (hsome : ∃ b ∈ bins, b ≠ []) :
    (pwsBinned bins).2 = true ∧
    ∀ (i1 i2 i3 i4 : Nat) (a b c d : L), a ∈ bins.getD i1 [] → b ∈ bins.getD i2 [] → c ∈ bins.getD i3 [] →
      d ∈ bins.getD i4 [] → [a, b, c, d].Nodup → i1 ^^^ i2 ^^^ i3 ^^^ i4 = 0 →
      quadOk (pwsBinned bins).1 a b c d = true := by
  obtain ⟨h1, h2⟩ := OFV.Proofs.C18Binned.binned_covers (bins := bins) (s := s) ⟨hlen, hnd, hnn, hsome⟩
  exact ⟨h1, fun i1 i2 i3 i4 a b c d ha hb hc hd hn hx => h2 i1 i2 i3 i4 a b c d ⟨ha, hb, hc, hd, hn, hx⟩⟩

/-- `pair_within_simultaneously_symmetric(num_fermions, num_symmetries)`, all `num_fermions ≥ 1` and all
numbers of symmetries: the call does not raise and every four Majoranas whose bin indices
(`index mod 2^num_symmetries`) XOR to 0 have a co-scheduled split. -/
theorem pws_symmetric_covers (nf ns : Nat) (hnf : 1 ≤ nf) :
    (pwsSymmetric nf ns).2 = true ∧
    ∀ (i1 i2 i3 i4 : Nat), i1 < 2 * nf → i2 < 2 * nf → i3 < 2 * nf → i4 < 2 * nf →
      [i1, i2, i3, i4].Nodup →
      (i1 % 2 ^ ns) ^^^ (i2 % 2 ^ ns) ^^^ (i3 % 2 ^ ns) ^^^ (i4 % 2 ^ ns) = 0 →
      quadOk (pwsSymmetric nf ns).1 (some i1) (some i2) (some i3) (some i4) = true :=
  OFV.Proofs.C18Binned.symmetric_covers nf ns hnf

/-- `pair_within_simultaneously_binned`: the full Spec predicate the oracle evaluates — the call does not
raise, every yield uses no label twice and only given labels (it takes at most one result of every
iterator of `_parallel_iter` / `_asynchronous_iter`), and every four labels whose bin indices XOR to 0
have a co-scheduled split. -/
theorem pws_binned_spec (bins : List (List L)) (s : Nat) (hlen : bins.length = 2 ^ s)
    (hnd : bins.flatten.Nodup) (hnn : none ∉ bins.flatten) (hsome : ∃ b ∈ bins, b ≠ []) :
    (pwsBinned bins).2 = true ∧ quadsCovered bins (pwsBinned bins).1 = true :=
  OFV.Proofs.C18Valid.binned_spec (bins := bins) (s := s) ⟨hlen, hnd, hnn, hsome⟩

/-- `pair_within_simultaneously_symmetric`: the full Spec predicate, all `num_fermions ≥ 1`, all
`num_symmetries` (bins: Majorana `i` in bin `i mod 2^num_symmetries`). -/
theorem pws_symmetric_spec (nf ns : Nat) (hnf : 1 ≤ nf) :
    (pwsSymmetric nf ns).2 = true ∧
      quadsCovered ((List.range (2 ^ ns)).map (fun b =>
        ((List.range (2 * nf)).filter (fun i => i % 2 ^ ns = b)).map some)) (pwsSymmetric nf ns).1 = true :=
  OFV.Proofs.C18Valid.symmetric_spec nf ns hnf

example : quadOk (pwsSymmetric 4 1).1 (some 0) (some 2) (some 3) (some 7) = true :=
  (pws_symmetric_covers 4 1 (by decide)).2 0 2 3 7 (by decide) (by decide) (by decide) (by decide)
    (by decide) (by decide)

/-- `partition_iterator(qubit_list, k)` (default number of iterations), every list length and every
`1 ≤ k ≤ n`: every yield is a `k`-partition of the qubits and every `k`-subset is perfectly split (one
element per part) by at least one yield.  Induction on `k` through the outer binary partition with the
decreasing iteration budget: a subset that stays unsplit for `j` outer steps has pairwise distances that
are multiples of `2^j`, which is exactly what the inner calls with `⌈log₂ n⌉ − 1 − j` iterations need. -/
theorem partition_iterator_spec (l : List Nat) (hnd : l.Nodup) (k : Nat) (hk1 : 1 ≤ k) (hkn : k ≤ l.length) :
    splitsAll l k (partitionIter l k none) = true :=
  OFV.Proofs.C18Part.partitionIter_spec l hnd k hk1 hkn

example : splitsAll [0, 1, 2, 3, 4, 5, 6] 3 (partitionIter [0, 1, 2, 3, 4, 5, 6] 3 none) = true :=
  partition_iterator_spec _ (by decide) 3 (by decide) (by decide)

/-- `pauli_string_iterator(num_qubits, max_word_size)`, all `1 ≤ k ≤ n`: the call succeeds, every
yielded string has length `n` over `{I, X, Y, Z}`, and every Pauli word of weight `≤ k` (every choice of
at most `k` qubits and of a letter `X, Y, Z` on each of them) is shown by at least one yielded string. -/
theorem pauli_string_iterator_spec (n k : Nat) (hk1 : 1 ≤ k) (hkn : k ≤ n) :
    ∃ strings, pauliStrings n k = some strings ∧ wordsCovered n k strings = true :=
  OFV.Proofs.C18Pauli.pauliStrings_spec n k hk1 hkn

example : ∃ strings, pauliStrings 5 2 = some strings ∧ wordsCovered 5 2 strings = true :=
  pauli_string_iterator_spec 5 2 (by decide) (by decide)

/-- `group_into_tensor_product_basis_sets`, for **every** sequence of shuffles that lists each current
basis at least once (in particular every sequence of genuine permutations, whatever the seed): the
returned dictionary has pairwise distinct keys, each key is a tensor-product basis (one Pauli per qubit,
sorted), every term of a group is diagonal in the basis named by its key, and the groups' non-zero
terms are exactly the operator's non-zero terms with their coefficients (a partition that sums back to
the operator).  Hypotheses: the terms are distinct canonical Pauli words and every non-zero
coefficient is above the `+=` deletion tolerance (exact regime). -/
theorem tpb_groups_spec (tol : Rat) (op : Model.Op) (perms : List (List Nat))
    (hnd : (op.map (·.1)).Nodup) (hb : ∀ tc ∈ op, isBasis tc.1 = true)
    (hc : ∀ tc ∈ op, tc.2 ≠ 0 → GQ.isSmall tol tc.2 = false)
    (hp : OFV.Proofs.C18Tpb.PermsCover tol [] op perms) :
    tpbOk op (groupTPB tol op perms) = true :=
  OFV.Proofs.C18Tpb.groupTPB_ok tol op perms hnd hb hc hp

example : tpbOk [([(0, 1)], 1), ([(0, 3)], 1), ([(0, 1), (1, 2)], 1), ([(1, 3)], 1)]
    (groupTPB GQ.eqTol [([(0, 1)], 1), ([(0, 3)], 1), ([(0, 1), (1, 2)], 1), ([(1, 3)], 1)]
      [[0, 1, 2, 3], [3, 0, 2, 1], [1, 0, 3, 2], [2, 3, 0, 1]]) = true :=
  tpb_groups_spec _ _ _ (by decide) (by decide)
    (by
      intro tc h _
      simp only [List.mem_cons, List.not_mem_nil, or_false] at h
      rcases h with rfl | rfl | rfl | rfl <;> exact OFV.Proofs.C18Tpb.one_not_small)
    (OFV.Proofs.C18Tpb.permsCover_of_full _ 4 _ _ _ (by decide) (by decide))

/-- **`pair_within` schedules every unordered pair of labels EXACTLY once**, every list length: the
`len - 1 + len % 2` yields are perfect matchings with `⌊len/2⌋` pairs each — `len (len - 1) / 2` pair slots in
total — and every pair occurs at least once (`pair_within_spec`), so by counting no pair occurs twice. -/
theorem pair_within_exactly_once (labels : List L) (hnd : labels.Nodup) (hnone : none ∉ labels) :
    ∀ a ∈ labels, ∀ b ∈ labels, a ≠ b → pairCount (pairWithin labels) a b = 1 := by
  obtain ⟨hlen, hall⟩ := pair_within_matching labels hnd hnone
  refine OFV.Proofs.C18Once.pairWithin_once labels hnd hnone hlen ?_
    (fun a ha b hb hab => OFV.Proofs.C18.pairWithin_covers labels hnd hnone a ha b hb hab)
  intro p hp
  have := List.all_eq_true.1 hall p hp
  simp only [isMatchingOf, Bool.and_eq_true, beq_iff_eq, List.isPerm_iff] at this
  exact ⟨this.1.1, this.1.2, this.2⟩

example : pairCount (pairWithin [some 4, some 7, some 1, some 9, some 3]) (some 7) (some 3) = 1 :=
  pair_within_exactly_once _ (by decide) (by decide) _ (by decide) _ (by decide) (by decide)

/-- `_loop_iterator(func, *params)` over a generator with a non-empty, finite list `g` of yields: the `i`-th `next()`
returns `g[i mod len g]` together with the flag "already looped" (`len g ≤ i`). -/
theorem loop_iterator_spec (g : List (Pairing L)) (hne : g ≠ []) (i : Nat) :
    loopNth g i = some (g[i % g.length]'(Nat.mod_lt _ (List.length_pos_iff.mpr hne)), decide (g.length ≤ i)) := by
  unfold loopNth
  rw [List.getElem?_eq_getElem (Nat.mod_lt _ (List.length_pos_iff.mpr hne))]

/-- `_gen_pairings_between_partitions(A, B)` for two disjoint parts with at least two labels each (as
`pair_within_simultaneously` calls it): it yields something, every yield is a perfect matching of all labels of `A`
and `B`, and for every choice of halves `x` of `A` and `y` of `B` every pair `p, q` inside one chosen half occurs
together with every cross pair `(r, d)` of the two complementary halves in one yield — the "three labels on one side,
one on the other" case of the four-label statement. -/
theorem gen_pairings_between_spec (A B : List L) (hAB : (A ++ B).Nodup) (hAn : none ∉ A) (hBn : none ∉ B)
    (hA2 : 2 ≤ A.length) (hB2 : 2 ≤ B.length) :
    genPairingsBetween A B ≠ []
    ∧ (∀ g ∈ genPairingsBetween A B, wellFormed g = true ∧ (labelsOf g).Perm (A ++ B))
    ∧ (∀ x y, x ≤ 1 → y ≤ 1 → ∀ p q r d,
        p ∈ (halves A).getD x [] → q ∈ (halves A).getD x [] → p ≠ q →
        r ∈ (halves A).getD (1 - x) [] → d ∈ (halves B).getD (1 - y) [] → (halves B).getD y [] ≠ [] →
        ∃ g ∈ genPairingsBetween A B, hasPair g p q = true ∧ hasPair g r d = true)
    ∧ (∀ x y, x ≤ 1 → y ≤ 1 → ∀ p q r d,
        p ∈ (halves B).getD y [] → q ∈ (halves B).getD y [] → p ≠ q →
        r ∈ (halves B).getD (1 - y) [] → d ∈ (halves A).getD (1 - x) [] → (halves A).getD x [] ≠ [] →
        ∃ g ∈ genPairingsBetween A B, hasPair g p q = true ∧ hasPair g r d = true) := by
  have conv : ∀ (g : Pairing L) (a b : L), OFV.Proofs.C18Pws.PairIn g a b → hasPair g a b = true := by
    intro g a b h
    unfold hasPair
    rcases h with h | h
    · simp; exact Or.inl h
    · simp; exact Or.inr h
  refine ⟨OFV.Proofs.C18Pws.gpb_nonempty A B hAB hAn hBn hA2 hB2,
    fun g hg => OFV.Proofs.C18Pws.gpb_full A B hAB hAn hBn hA2 hB2 g hg, ?_, ?_⟩
  · intro x y hx hy p q r d hp hq hpq hr hd hBy
    obtain ⟨g, hg, h1, h2⟩ := OFV.Proofs.C18Pws.gpb_cover_left A B hAB hAn hBn x y hx hy p q r d hp hq hpq hr hd hBy
    exact ⟨g, hg, conv g p q h1, conv g r d h2⟩
  · intro x y hx hy p q r d hp hq hpq hr hd hAx
    obtain ⟨g, hg, h1, h2⟩ := OFV.Proofs.C18Pws.gpb_cover_right A B hAB hAn hBn x y hx hy p q r d hp hq hpq hr hd hAx
    exact ⟨g, hg, conv g p q h1, conv g r d h2⟩

/-- `group_into_tensor_product_basis_sets` for **genuine permutations**: whenever every recorded shuffle is a
permutation of the indices of the bases present at that step — which is what `numpy.random.RandomState.shuffle` produces
for every seed — the returned dictionary is a partition of the operator's non-zero terms into tensor-product-basis
groups (`tpbOk`).  This discharges the hypothesis `PermsCover` of `tpb_groups_spec` from the natural one. -/
theorem tpb_groups_spec_permutations (tol : Rat) (op : Model.Op) (perms : List (List Nat))
    (hnd : (op.map (·.1)).Nodup) (hb : ∀ tc ∈ op, isBasis tc.1 = true)
    (hc : ∀ tc ∈ op, tc.2 ≠ 0 → GQ.isSmall tol tc.2 = false)
    (hp : OFV.Proofs.C18Tpb.GenuinePerms tol [] op perms) :
    tpbOk op (groupTPB tol op perms) = true :=
  tpb_groups_spec tol op perms hnd hb hc (OFV.Proofs.C18Tpb.permsCover_of_genuine tol op [] perms hp)

/-! ### explicit `num_iterations` -/

/-- `binary_partition_iterator(qubit_list, num_iterations = it)`: any explicit budget with `n ≤ 2^it` (not only the
default `⌈log₂ n⌉`) makes every yield a 2-partition and splits every pair of qubits. -/
theorem binary_partition_explicit_spec (l : List Nat) (hnd : l.Nodup) (h2 : 2 ≤ l.length) (it : Nat)
    (hit : l.length ≤ 2 ^ it) :
    ∃ ys, binaryPartition l (some it) = some ys ∧ splitsAll l 2 (ys.map (fun p => [p.1, p.2])) = true :=
  OFV.Proofs.C18Explicit.binaryPartition_explicit l hnd h2 it hit

/-- `binary_partition_iterator` with a smaller explicit budget yields exactly the first yields of a larger one
(lists of at least three qubits; a 2-qubit list always yields its single split). -/
theorem binary_partition_prefix (l : List Nat) (h3 : 3 ≤ l.length) (k d : Nat) (hk : k ≠ 0) :
    ∃ ys ys', binaryPartition l (some k) = some ys ∧ binaryPartition l (some (k + d)) = some ys' ∧ ys'.take k = ys := by
  unfold binaryPartition
  have h0 : ¬ (some k = some 0) := by intro e; injection e with e; exact hk e
  have h0' : ¬ (some (k + d) = some 0) := by intro e; injection e with e; omega
  have hn : ¬ l.length < 2 := by omega
  simp only [h0, h0', if_false, hn]
  match l, h3 with
  | a :: b :: c :: t, _ =>
    exact ⟨_, _, rfl, rfl, OFV.Proofs.C18Explicit.binaryLoop_take _ k d _⟩

/-- `partition_iterator(qubit_list, k, num_iterations = it)`: any explicit budget `it ≥ 1` with `n ≤ 2^it` makes every
yield a `k`-partition and splits every `k`-subset perfectly. -/
theorem partition_iterator_explicit_spec (l : List Nat) (hnd : l.Nodup) (k : Nat) (hk1 : 1 ≤ k) (it : Nat)
    (hit : 1 ≤ it) (hn : l.length ≤ 2 ^ it) : splitsAll l k (partitionIter l k (some it)) = true :=
  OFV.Proofs.C18Explicit.partitionIter_explicit l hnd k hk1 it hit hn

example : splitsAll [0, 1, 2, 3, 4, 5, 6] 3 (partitionIter [0, 1, 2, 3, 4, 5, 6] 3 (some 4)) = true :=
  partition_iterator_explicit_spec _ (by decide) 3 (by decide) 4 (by decide) (by decide)

/-! ### helper generators -/

/-- `_gen_partitions(labels, min_size)`, every label list and every `min_size`: every yielded level is a partition of
`labels` into contiguous parts (concatenating the parts gives `labels` back), is non-empty, and — for at least two
labels — has part sizes that differ by at most one with a largest part last (what the size tests of the callers
rely on). -/
theorem gen_partitions_spec (labels : List Nat) (ms : Nat) :
    ∀ x ∈ genPartitions labels ms, x.flatten = labels ∧ x ≠ []
      ∧ (2 ≤ labels.length → OFV.Proofs.C18Pws.Balanced x) :=
  OFV.Proofs.C18Helpers.genPartitions_spec labels ms

/-- `_parallel_iter(iterators, flatten=True)`: the yields are exactly the non-empty rows `k` — the `k`-th results of
all iterators that still have one, concatenated in iterator order — for `k` below the longest length. -/
theorem parallel_iter_spec (its : List (List (List Nat))) (r : List Nat) :
    r ∈ parallelIter its ↔
      r ≠ [] ∧ ∃ k, k < its.foldl (fun acc l => max acc l.length) 0 ∧ r = its.flatMap (fun l => l.getD k []) :=
  OFV.Proofs.C18Helpers.parallelIter_spec its r

end OFV.C18
