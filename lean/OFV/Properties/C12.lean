/-
C12 — property theorems for the logic of quadratic Hamiltonians / Gaussian states
(energies as list arithmetic for ANY order of the orbital energies; default occupation; the algebra of
`majorana_form`).  LAPACK kernels (`eigh`, `schur`) are parameters of the Model (trusted base).
NOT proved (OPEN_STATEMENTS in harness/c12.py): Fock states of the b-modes are eigenvectors (operator
level); final shape of `antisymmetric_canonical_form`; correctness of the prepared states.
-/
import OFV.Model.C12
import OFV.Spec.C12
import OFV.Proofs.C12
import OFV.Proofs.C12Maj
import OFV.Proofs.C12Swap
import OFV.Proofs.C12Fock
import OFV.Proofs.C12Bogo
import OFV.Proofs.C12Sector
import Mathlib.Data.Matrix.Mul
import Mathlib.LinearAlgebra.Matrix.Notation

namespace OFV.C12
open OFV OFV.Model.C12 OFV.Spec.C12

/-! ## energies -/

/-- the Spec spectrum `{c + Σ_{j∈S} ε_j}` is exactly the set of sublist sums (shifted) -/
theorem spectrum_mem (es : List Rat) (c x : Rat) :
    x ∈ spectrum es c ↔ ∃ S : List Rat, List.Sublist S es ∧ x = S.sum + c := by
  unfold spectrum
  simp only [List.mem_map]
  constructor
  · rintro ⟨y, hy, rfl⟩
    obtain ⟨S, hS, rfl⟩ := (mem_subsetSums es y).1 hy
    exact ⟨S, hS, rfl⟩
  · rintro ⟨S, hS, rfl⟩
    exact ⟨S.sum, (mem_subsetSums es _).2 ⟨S, hS, rfl⟩, rfl⟩

/-- `ground_energy` (sum of the negative orbital energies + constant) is the lowest element of the
subset-sum spectrum, **for any order of the energies** (sorted or block-concatenated), and it is attained -/
theorem ground_energy_is_lowest (es : List Rat) (c : Rat) :
    groundEnergy es c ∈ spectrum es c ∧ (∀ x ∈ spectrum es c, groundEnergy es c ≤ x) ∧
    groundEnergy es c = lowest es c := by
  have hmem : groundEnergy es c ∈ spectrum es c := by
    unfold spectrum groundEnergy
    exact List.mem_map.mpr ⟨negSum es, negSum_mem_subsetSums es, rfl⟩
  have hle : ∀ x ∈ spectrum es c, groundEnergy es c ≤ x := by
    intro x hx
    unfold spectrum at hx
    obtain ⟨y, hy, rfl⟩ := List.mem_map.mp hx
    have := negSum_le_subsetSum es y hy
    unfold groundEnergy; unfold negSum at this; linarith
  refine ⟨hmem, hle, ?_⟩
  unfold lowest
  have hne : spectrum es c ≠ [] := by intro h; rw [h] at hmem; simp at hmem
  have h1 := listMin_le (spectrum es c) _ hmem
  have h2 := hle _ (listMin_mem (spectrum es c) hne)
  linarith

example : groundEnergy [-1, 1, -2, 3] 0 = -3 ∧ lowest [-1, 1, -2, 3] 0 = -3 := by decide +kernel

/-! ## spin sectors and the chemical potential (energy lists) -/

/-- **spin sectors.**  For block-concatenated orbital energies (`numpy.concatenate((up, down))` of the spin-block-diagonal
path, or the two lists returned for `spin_sector = 0, 1`) the many-body spectrum is exactly the set of sums of one level of
each sector (the constant counted once) -/
theorem sector_spectrum_is_sum_set (up down : List Rat) (c x : Rat) :
    x ∈ spectrum (up ++ down) c ↔ ∃ xu ∈ spectrum up c, ∃ xd ∈ spectrum down 0, x = xu + xd := by
  unfold spectrum
  simp only [List.mem_map]
  constructor
  · rintro ⟨y, hy, rfl⟩
    obtain ⟨xu, hu, xd, hd, rfl⟩ := (mem_subsetSums_append up down y).1 hy
    exact ⟨xu + c, ⟨xu, hu, rfl⟩, xd + 0, ⟨xd, hd, rfl⟩, by ring⟩
  · rintro ⟨_, ⟨xu, hu, rfl⟩, _, ⟨xd, hd, rfl⟩, rfl⟩
    exact ⟨xu + xd, (mem_subsetSums_append up down _).2 ⟨xu, hu, xd, hd, rfl⟩, by ring⟩

/-- the ground energy (Model = Spec lowest level) is additive over the spin sectors -/
theorem sector_ground_energy_additive (up down : List Rat) (c : Rat) :
    groundEnergy (up ++ down) c = groundEnergy up c + groundEnergy down 0 ∧
    lowest (up ++ down) c = lowest up c + lowest down 0 := by
  have h := groundEnergy_append up down c
  refine ⟨h, ?_⟩
  rw [← (ground_energy_is_lowest (up ++ down) c).2.2, ← (ground_energy_is_lowest up c).2.2,
    ← (ground_energy_is_lowest down 0).2.2]
  exact h

/-- the default occupation of the concatenated energies is the default occupation of the up sector followed by that of the
down sector with indices offset by the number of up orbitals; in particular the number of filled orbitals is the sum of
the sector fillings -/
theorem sector_default_occupation_splits (tol : Rat) (up down : List Rat) :
    defaultOccupation tol (up ++ down) = defaultOccupation tol up ++ whereLt (-tol) down up.length ∧
    (defaultOccupation tol (up ++ down)).length =
      (defaultOccupation tol up).length + (whereLt (-tol) down up.length).length := by
  have h : defaultOccupation tol (up ++ down) = defaultOccupation tol up ++ whereLt (-tol) down up.length := by
    unfold defaultOccupation
    rw [whereLt_append]; simp
  exact ⟨h, by rw [h, List.length_append]⟩

/-- **chemical potential.**  With orbital energies `ε_j − μ` (eigenvalues of the combined matrix `M − μ·1`) every level built
from `k` orbitals is the level of `M` shifted by `−k μ` -/
theorem chemical_potential_shifts_levels (es : List Rat) (mu c x : Rat) :
    x ∈ spectrum (es.map (· - mu)) c ↔ ∃ S : List Rat, List.Sublist S es ∧ x = S.sum - S.length * mu + c := by
  unfold spectrum
  simp only [List.mem_map]
  constructor
  · rintro ⟨y, hy, rfl⟩
    obtain ⟨S, hS, rfl⟩ := (mem_subsetSums_shift es mu y).1 hy
    exact ⟨S, hS, rfl⟩
  · rintro ⟨S, hS, rfl⟩
    exact ⟨_, (mem_subsetSums_shift es mu _).2 ⟨S, hS, rfl⟩, rfl⟩

/-- the sector energies must come from the combined matrix: for the one-orbital sector `ε = 1`, `μ = 2` the default
occupation / ground energy computed from the bare energy (empty, `0`) differ from those of `ε − μ` (orbital `0`, `−1`) —
the seeded change "spin_sector slices hermitian_part" -/
theorem test_sector_energies_need_combined_matrix :
    defaultOccupation (1/100000000) [1] = [] ∧ defaultOccupation (1/100000000) ([1].map (· - 2)) = [0] ∧
    groundEnergy [1] 0 = 0 ∧ groundEnergy ([1].map (· - 2)) 0 = -1 := by decide +kernel

example : spectrum [-1, 2] 0 = [0, 2, -1, 1] ∧ groundEnergy ([-1, 2] ++ [3, -2]) 0 = -3 ∧
    defaultOccupation 0 ([-1, 2] ++ [3, -2]) = [0, 3] := by decide +kernel

/-- the default occupation of `jw_get_gaussian_state` (`where(energies < -EQ_TOLERANCE)`) selects exactly
the orbitals whose energy is below `-tol`, whatever the order of the energies -/
theorem default_occupation_mem (tol : Rat) (es : List Rat) (j : Nat) :
    j ∈ defaultOccupation tol es ↔ j < es.length ∧ es.getD j 0 < -tol := by
  unfold defaultOccupation
  rw [whereLt_mem]
  simp

/-- energy returned with the default occupation: between the true ground energy and ground energy + n·tol
(orbitals with energy in `[-tol, 0)` are left empty) -/
theorem default_energy_bounds (tol : Rat) (htol : 0 ≤ tol) (es : List Rat) (c : Rat) :
    groundEnergy es c ≤ defaultEnergy tol true es c ∧
    defaultEnergy tol true es c ≤ groundEnergy es c + tol * es.length := by
  have hmap := whereLt_map (-tol) es []
  simp only [List.length_nil, List.nil_append] at hmap
  unfold defaultEnergy energyOf defaultOccupation groundEnergy
  simp only [if_true]
  rw [hmap]
  obtain ⟨h1, h2⟩ := filter_sum_bounds tol htol es
  unfold negSum at h1 h2
  constructor <;> linarith

/-- … and equal to the ground energy when no orbital energy lies in `[-tol, 0)` (exact regime) -/
theorem default_energy_is_ground (tol : Rat) (htol : 0 ≤ tol) (es : List Rat) (c : Rat)
    (hex : ∀ e ∈ es, e < 0 → e < -tol) :
    defaultEnergy tol true es c = groundEnergy es c ∧ defaultEnergy tol true es c = lowest es c := by
  have hmap := whereLt_map (-tol) es []
  simp only [List.length_nil, List.nil_append] at hmap
  have h : defaultEnergy tol true es c = groundEnergy es c := by
    unfold defaultEnergy energyOf defaultOccupation groundEnergy
    simp only [if_true]
    rw [hmap, filter_sum_exact tol es hex htol]
    rfl
  exact ⟨h, by rw [h]; exact (ground_energy_is_lowest es c).2.2⟩

-- the block-concatenated order of the repaired defect (`diag(1,-1,-2,3)`): energies unsorted, result -3
example : defaultOccupation (1/100000000) [1, -1, -2, 3] = [1, 2] ∧
    defaultEnergy (1/100000000) true [1, -1, -2, 3] 0 = -3 := by decide +kernel

/-- the rule the code used before the repair (`range(#negative)`, i.e. the first `k` orbitals) gives a wrong
energy on that order: 0 instead of -3 (kernel-checked on the Model's `energyOf`) -/
theorem test_old_default_rule_counterexample :
    energyOf [1, -1, -2, 3] (List.range (([1, -1, -2, 3] : List Rat).filter (· < 0)).length) 0 = 0 ∧
    groundEnergy [1, -1, -2, 3] 0 = -3 := by decide +kernel

/-! ## Subset sums are eigenvalues (operator level, any representation) -/

open OFV.Car in
/-- **Fock states of the `b` modes are eigenvectors.**  In every ring `R` acting on a module `V`, for every family
`b†_j = ad j`, `b_j = a j` (`j < n`) satisfying the canonical anticommutation relations (for the Bogoliubov modes
`b† = W (a†, a)ᵀ` this is what the canonical constraints on `W` express), and every vacuum `vac` with
`b_j vac = 0`: the state `b†_{s1} ⋯ b†_{sk} vac` (distinct `s_i < n`) satisfies
`(Σ_{j ∈ l} ε_j b†_j b_j + c) ψ_S = (c + Σ_{j ∈ l, j ∈ S} ε_j) ψ_S`,
i.e. every subset sum of the orbital energies (plus the constant) is an eigenvalue, with an explicit eigenvector.
(Completeness — these `2^n` vectors span the space — is the Fock-space dimension count, not formalised.) -/
theorem fock_state_energy {R : Type} [Ring R] {V : Type} [AddCommGroup V] [Module R V] (n : Nat)
    (ad a : Nat → R) (h : CAR n ad a) (vac : V) (hvac : ∀ j, j < n → a j • vac = 0) (ε : Nat → R) (c : R)
    (S : List Nat) (hnd : S.Nodup) (hS : ∀ s ∈ S, s < n) :
    (((List.range n).map fun j => ε j * (ad j * a j)).sum + c) • fock ad vac S =
    (((List.range n).map fun j => if j ∈ S then ε j else 0).sum + c) • fock ad vac S :=
  hamiltonian_fock h vac hvac ε c S hnd hS (List.range n) (fun _ hj => List.mem_range.mp hj)

open OFV.Car Finset in
/-- **Canonical constraints on `W` ⟹ the new operators satisfy the CAR.**  With `b†_i = Σ_k (A_ik a†_k + B_ik a_k)` and
`b_i = Σ_k (A'_ik a_k + B'_ik a†_k)` (for a Bogoliubov matrix `W = (W1 W2)`: `A = W1`, `B = W2`, `A' = conj W1`,
`B' = conj W2`), the block identities `W1 W1† + W2 W2† = 1` (`h1`, read entrywise and conjugated) and
`W1 W2ᵀ + W2 W1ᵀ = 0` (`h2`, and its conjugate `h2'`) — exactly the test of `fermionic_gaussian_decomposition` and the oracle
of the harness — imply `{b_i, b_j} = {b†_i, b†_j} = 0`, `{b_i, b†_j} = δ_ij`, in any algebra over a commutative ring. -/
theorem constraints_imply_car {K R : Type} [CommRing K] [Ring R] [Algebra K R] (n : Nat) (ad a : Nat → R) (hc : CAR n ad a)
    (A B A' B' : Nat → Nat → K)
    (h1 : ∀ i j, i < n → j < n → ∑ k ∈ range n, (A' i k * A j k + B' i k * B j k) = if i = j then 1 else 0)
    (h2 : ∀ i j, i < n → j < n → ∑ k ∈ range n, (A i k * B j k + B i k * A j k) = 0)
    (h2' : ∀ i j, i < n → j < n → ∑ k ∈ range n, (A' i k * B' j k + B' i k * A' j k) = 0) :
    CAR n (bdag n A B ad a) (bann n A' B' ad a) :=
  bogoliubov_car n ad a hc A B A' B' h1 h2 h2'

open OFV.Car Finset in
/-- … and conversely the CAR of the new operators force the first block identity, whenever scalars act faithfully on `1`
(`{b_i, b†_j}` equals the scalar `Σ_k (A'_ik A_jk + B'_ik B_jk)` unconditionally) -/
theorem car_implies_constraint {K R : Type} [CommRing K] [Ring R] [Algebra K R] (n : Nat) (ad a : Nat → R) (hc : CAR n ad a)
    (A B A' B' : Nat → Nat → K) (hinj : ∀ x y : K, x • (1 : R) = y • (1 : R) → x = y)
    (hb : CAR n (bdag n A B ad a) (bann n A' B' ad a)) (i j : Nat) (hi : i < n) (hj : j < n) :
    ∑ k ∈ range n, (A' i k * A j k + B' i k * B j k) = if i = j then 1 else 0 :=
  bogoliubov_constraint_of_car n ad a hc A B A' B' hinj hb i j hi hj

open OFV.Car Finset in
/-- … and the second block identity `W1 W2ᵀ + W2 W1ᵀ = 0` likewise (`{b†_i, b†_j}` is the scalar `Σ_k (A_ik B_jk + B_ik A_jk)`):
together with `constraints_imply_car` the canonical constraints are EQUIVALENT to the CAR of the new operators -/
theorem car_implies_second_constraint {K R : Type} [CommRing K] [Ring R] [Algebra K R] (n : Nat) (ad a : Nat → R)
    (hc : CAR n ad a) (A B A' B' : Nat → Nat → K) (hinj : ∀ x y : K, x • (1 : R) = y • (1 : R) → x = y)
    (hb : CAR n (bdag n A B ad a) (bann n A' B' ad a)) (i j : Nat) (hi : i < n) (hj : j < n) :
    ∑ k ∈ range n, (A i k * B j k + B i k * A j k) = 0 :=
  bogoliubov_constraint2_of_car n ad a hc A B A' B' hinj hb i j hi hj

-- non-vacuity of the constraints: the identity transformation (A = A' = 1, B = B' = 0) on one mode
example : (∀ i j, i < 1 → j < 1 → ∑ k ∈ Finset.range 1, ((if i = k then (1 : ℤ) else 0) * (if j = k then 1 else 0) + 0 * 0) =
    if i = j then 1 else 0) := by
  intro i j hi hj
  have : i = 0 := by omega
  have : j = 0 := by omega
  subst_vars; simp

-- non-vacuity: one mode as 2 × 2 integer matrices acting on themselves; the vacuum is the projector |0⟩⟨0|
open OFV.Car Matrix in
example : CAR 1 (fun _ => (!![0, 0; 1, 0] : Matrix (Fin 2) (Fin 2) ℤ)) (fun _ => !![0, 1; 0, 0]) ∧
    (∀ j, j < 1 → (fun _ => (!![0, 1; 0, 0] : Matrix (Fin 2) (Fin 2) ℤ)) j • (!![1, 0; 0, 0] : Matrix (Fin 2) (Fin 2) ℤ) = 0) := by
  refine ⟨⟨?_, ?_, ?_⟩, ?_⟩
  · intro i j _ _; decide
  · intro i j _ _; decide
  · intro i j hi hj
    have : i = 0 := by omega
    have : j = 0 := by omega
    subst_vars
    simp only [dl, if_true]
    decide
  · intro j _
    show (!![0, 1; 0, 0] : Matrix (Fin 2) (Fin 2) ℤ) • (!![1, 0; 0, 0] : Matrix (Fin 2) (Fin 2) ℤ) = 0
    decide

/-! ## `majorana_form` -/

/-- the Majorana matrix is antisymmetric (it is real by construction: entries are `Rat`) whenever the
hermitian part is Hermitian and the antisymmetric part antisymmetric — all sizes -/
theorem majorana_matrix_antisymmetric (n : Nat) (H D : CMat)
    (hH : ∀ j k, H.get k j = (H.get j k).conj) (hD : ∀ j k, D.get k j = -(D.get j k)) (r c : Nat) :
    majEntry n H D c r = -majEntry n H D r c := by
  unfold majEntry
  by_cases h1 : r < n <;> by_cases h2 : c < n <;> simp only [h1, h2, if_true, if_false]
  · rw [hH r c, hD r c]; exact (blocks_antisymmetric _ _).1
  · rw [hH r (c - n), hD r (c - n)]; exact (blocks_antisymmetric _ _).2.1
  · rw [hH (r - n) c, hD (r - n) c]; exact (blocks_antisymmetric _ _).2.2.1
  · rw [hH (r - n) (c - n), hD (r - n) (c - n)]; exact (blocks_antisymmetric _ _).2.2.2

/-- Coefficient form of `H = (i/2) Σ A_jk f_j f_k + const` (see `OFV/Proofs/C12Maj.lean` for the four
ladder-monomial coefficients of the right-hand side, in terms of the block entries at `(j, k)`):
* `a†_j a†_k` carries `Δ_jk / 2`, `a_j a_k` carries `-Δ*_jk / 2` (the `(1,1)` and `(0,0)` tensors);
* after normal ordering `a_k a†_j = δ_jk - a†_j a_k`, `a†_j a_k` carries `M_jk`;
* the contraction contributes `-M_jj / 2` per mode, which `majorana_constant = tr(M)/2 + const` cancels. -/
theorem majorana_coefficients (h d : GQ) :
    coefDD h d = (⟨1/2, 0⟩ : GQ) * d ∧ coefAA h d = (⟨-1/2, 0⟩ : GQ) * d.conj ∧
    coefDA h d - coefAD h.conj (-d) = h ∧
    (h.im = 0 → coefAD h 0 = (⟨-1/2, 0⟩ : GQ) * h) := by
  refine ⟨?_, ?_, ?_, ?_⟩
  · refine GQ.ext ?_ ?_ <;> simp [coefDD, iq, rR, rI, ulE, urE, llE, lrE] <;> ring
  · refine GQ.ext ?_ ?_ <;> simp [coefAA, iq, rR, rI, ulE, urE, llE, lrE] <;> ring
  · refine GQ.ext ?_ ?_ <;> simp [coefDA, coefAD, iq, rR, rI, ulE, urE, llE, lrE] <;> ring
  · intro hi
    refine GQ.ext ?_ ?_ <;> simp [coefAD, iq, rR, rI, ulE, urE, llE, lrE, hi] <;> ring

example : majoranaMatrix 1 [[⟨3, 0⟩]] [[0]] = [[0, 3], [-3, 0]] := by decide +kernel

/-! ## `antisymmetric_canonical_form` -/

/-- elementary step of every pass (`swap_rows(C,a,b); swap_columns(C,a,b); swap_columns(O,a,b)`): the
canonical matrix is conjugated and the orthogonal matrix multiplied by the transposition `(a b)`:
`C'[i,j] = C[τ i, τ j]`, `O'[i,j] = O[i, τ j]`; shapes are kept.  Hence `O C Oᵀ` is unchanged entry by
entry (reindexing of the double sum by the bijection `τ`). -/
theorem canonical_step_is_transposition (s : CO) (p a b : Nat) (ha : a < p) (hb : b < p)
    (hC : Square s.canonical p) (hO : Square s.orthogonal p) :
    Square (conjSwap s a b).canonical p ∧ Square (conjSwap s a b).orthogonal p ∧
    ∀ i j, (conjSwap s a b).canonical.get i j = s.canonical.get (tr a b i) (tr a b j) ∧
           (conjSwap s a b).orthogonal.get i j = s.orthogonal.get i (tr a b j) :=
  conjSwap_entries s p a b ha hb hC hO

/-- All four passes of `antisymmetric_canonical_form` (block alignment, moving the blocks to the
off-diagonal quadrants, sign fixing, insertion sort of the diagonal) applied to ANY Schur pair `(T, Z)` of
size `2n`, whatever the tests `isclose(·, 0)`, `< 0` and `argmin` decide: the returned `canonical` and
`orthogonal` (before the final transposition) are the Schur pair reindexed by ONE permutation `π` (given
with its inverse): `C'[i,j] = T[π i, π j]`, `O'[i,j] = Z[i, π j]`, shapes kept.  Consequently
`O' C' O'ᵀ = Z T Zᵀ = A` (reindexing of the double sum by the bijection `π`), i.e. `A = Rᵀ C R` with
`R = O'ᵀ` is an invariant of the passes.
Still open (oracle only): the final SHAPE `C = [[0, D], [-D, 0]]`, `D ≥ 0` ascending, which depends on the
alignment of the 2×2 blocks of the real Schur form. -/
theorem canonical_passes_permutation (atol : Rat) (n : Nat) (T Z : RMat)
    (hT : Square T (2 * n)) (hZ : Square Z (2 * n)) :
    let s3 := pass3 n (pass2 n (pass1 atol ⟨T, Z⟩ (oddRange (2 * n - 1))) (oddRange n)) (List.range n)
    let diag := (List.range n).map fun i => s3.canonical.get i (n + i)
    Reindexed ⟨T, Z⟩ (pass4 n s3 diag (List.range n)) (2 * n) ∧
    (canonicalPasses atol n T Z).1 = (pass4 n s3 diag (List.range n)).canonical := by
  intro s3 diag
  refine ⟨?_, rfl⟩
  apply pass4_reindexed n _ _ _ _ (fun i hi => List.mem_range.mp hi) (by simp [diag])
  apply pass3_reindexed n _ _ _ (fun i hi => List.mem_range.mp hi)
  apply pass2_reindexed n _ _ _ (fun i hi => mem_oddRange n i hi)
  apply pass1_reindexed atol (2 * n) _ _ _ (fun i hi => by have := mem_oddRange _ i hi; omega)
  exact Reindexed.refl _ _ hT hZ

example : Square ([[0, 1], [-1, 0]] : RMat) (2 * 1) := by
  refine ⟨rfl, ?_⟩; intro row h; simp at h; rcases h with rfl | rfl <;> rfl

end OFV.C12
