/-
C11 — property theorems: the rotation schedules of `givens_rotations.py` (all shapes, unbounded),
the layer structure of what the numeric Model emits, and the 2×2 identities of
`givens_matrix_elements`.  Helper lemmas live in `OFV/Proofs/C11*.lean`.

NOT proved here (see OPEN_STATEMENTS in harness/c11.py): the full reconstruction statements
`V Q U† = (D | 0)`, `Q = D U`, `V W U† = (0 | D)` as theorems about the numeric Model.  They are
checked by the reconstruction oracle on the implementation's outputs; the last one is false on the
real code for a singular left block (known finding F11, `gaussian_reconstruct_counterexample`).
-/
import OFV.Model.C11
import OFV.Proofs.C11

namespace OFV.C11
open OFV OFV.Model.C11

/-! ## `givens_decomposition_square` : positions `(i, j)`, each zeroed by rotating columns `(j-1, j)` -/

/-- Complete characterisation of the anti-diagonal sweep: `(i, j)` is visited in iteration `k`
iff it lies in the strict upper triangle and `k = (n - 1) - j + 2 i`.  (All `n`, all `k`.) -/
theorem square_schedule_mem (n k i j : Nat) :
    (i, j) ∈ squareLayer n k ↔ i < j ∧ j < n ∧ k + j = n - 1 + 2 * i :=
  mem_squareLayer n k i j

/-- every rotation acts on the adjacent, valid column pair `(j - 1, j)` and on a valid row -/
theorem square_schedule_adjacent (n k i j : Nat) (h : (i, j) ∈ squareLayer n k) :
    (j - 1) + 1 = j ∧ j < n ∧ i < n := by
  rw [mem_squareLayer] at h; omega

/-- two different positions of one layer use disjoint column pairs `{j-1, j}`, `{j'-1, j'}` -/
theorem square_schedule_disjoint (n k i j i' j' : Nat) (h : (i, j) ∈ squareLayer n k)
    (h' : (i', j') ∈ squareLayer n k) (hne : (i, j) ≠ (i', j')) : j + 2 ≤ j' ∨ j' + 2 ≤ j := by
  rw [mem_squareLayer] at h h'
  have : i ≠ i' ∨ j ≠ j' := by
    by_cases hi : i = i'
    · right; intro hj; exact hne (by rw [hi, hj])
    · left; exact hi
  omega

/-- coverage: every position of the strict upper triangle is visited in exactly one of the
`2(n-1)-1` iterations (so the depth bound of the docstring is attained by the schedule itself) -/
theorem square_schedule_covers (n i j : Nat) (hi : i < j) (hj : j < n) :
    ∃ k, k < squareDepth n ∧ (i, j) ∈ squareLayer n k ∧ ∀ k', (i, j) ∈ squareLayer n k' → k' = k := by
  refine ⟨n - 1 + 2 * i - j, ?_, ?_, ?_⟩
  · unfold squareDepth; omega
  · rw [mem_squareLayer]; omega
  · intro k' h; rw [mem_squareLayer] at h; omega

/-- nothing outside the strict upper triangle is ever touched, in any iteration -/
theorem square_schedule_only_triangle (n k i j : Nat) (h : (i, j) ∈ squareLayer n k) :
    i < j ∧ j < n ∧ k < squareDepth n := by
  rw [mem_squareLayer] at h; unfold squareDepth; omega

/-- Index-level zero persistence.  When `(i, j)` is zeroed in iteration `k` by mixing columns `j-1, j`:
in every row `i' < i` both mixed entries were zeroed in strictly earlier iterations, and in every row
`i' > i` neither mixed entry of the upper triangle has been zeroed yet (not even in iteration `k`).
Hence a rotation only ever mixes two zeros or two not-yet-zeroed entries of the triangle. -/
theorem square_zero_persistence (n k i j i' : Nat) (h : (i, j) ∈ squareLayer n k) :
    (i' < i → (∃ k1, k1 < k ∧ (i', j) ∈ squareLayer n k1) ∧ (∃ k2, k2 < k ∧ (i', j - 1) ∈ squareLayer n k2)) ∧
    (i < i' → ∀ k', k' ≤ k → (i', j) ∉ squareLayer n k' ∧ (i', j - 1) ∉ squareLayer n k') := by
  rw [mem_squareLayer] at h
  constructor
  · intro hi
    exact ⟨⟨n - 1 + 2 * i' - j, by omega, by rw [mem_squareLayer]; omega⟩,
           ⟨n - 1 + 2 * i' - (j - 1), by omega, by rw [mem_squareLayer]; omega⟩⟩
  · intro hi k' hk'
    constructor <;> (intro hmem; rw [mem_squareLayer] at hmem; omega)

example : (1, 3) ∈ squareLayer 5 3 := by decide
example : squareLayer 5 4 = [(1, 2), (2, 4)] := by decide

/-! ## `givens_decomposition`, `m < n` : left-unitary stage and parallel sweep -/

/-- the left-unitary stage zeroes exactly the upper-right corner `j - i > n - m` -/
theorem givens_left_stage_mem (m n l k : Nat) (hm : m ≤ n) :
    (l, k) ∈ givensLeft m n ↔ k < n ∧ l + (n - m) < k :=
  mem_givensLeft m n l k hm

/-- Complete characterisation of the three-case sweep (`k < max_simul - 1`, `k > n - 1 - max_simul`,
middle): `(i, j)` is visited in iteration `k` iff `i < m`, `i < j ≤ i + (n - m)` and
`k = (n - m) - j + 2 i`. -/
theorem givens_schedule_mem (m n k i j : Nat) (hm : m < n) (hk : k < givensDepth n) :
    (i, j) ∈ givensLayer m n k ↔ i < m ∧ i < j ∧ j ≤ i + (n - m) ∧ k + j = n - m + 2 * i :=
  mem_givensLayer m n k i j hm hk

theorem givens_schedule_adjacent (m n k i j : Nat) (hm : m < n) (hk : k < givensDepth n)
    (h : (i, j) ∈ givensLayer m n k) : (j - 1) + 1 = j ∧ j < n ∧ i < m := by
  rw [mem_givensLayer m n k i j hm hk] at h; omega

theorem givens_schedule_disjoint (m n k i j i' j' : Nat) (hm : m < n) (hk : k < givensDepth n)
    (h : (i, j) ∈ givensLayer m n k) (h' : (i', j') ∈ givensLayer m n k) (hne : (i, j) ≠ (i', j')) :
    j + 2 ≤ j' ∨ j' + 2 ≤ j := by
  rw [mem_givensLayer m n k _ _ hm hk] at h h'
  have : i ≠ i' ∨ j ≠ j' := by
    by_cases hi : i = i'
    · right; intro hj; exact hne (by rw [hi, hj])
    · left; exact hi
  omega

/-- coverage: the band `i < j ≤ i + (n - m)` left by the first stage is visited exactly once within
the `n - 1` iterations ("the circuit depth is n - 1") -/
theorem givens_schedule_covers (m n i j : Nat) (hm : m < n) (hi : i < m) (hij : i < j) (hj : j ≤ i + (n - m)) :
    ∃ k, k < givensDepth n ∧ (i, j) ∈ givensLayer m n k ∧
      ∀ k', k' < givensDepth n → (i, j) ∈ givensLayer m n k' → k' = k := by
  have hk : n - m + 2 * i - j < givensDepth n := by unfold givensDepth; omega
  refine ⟨n - m + 2 * i - j, hk, ?_, ?_⟩
  · rw [mem_givensLayer m n _ i j hm hk]; omega
  · intro k' hk' h; rw [mem_givensLayer m n k' i j hm hk'] at h; omega

/-- first stage and sweep together cover the whole strict upper triangle of the `m × n` matrix, and no
position is treated by both -/
theorem givens_upper_triangle_covered (m n i j : Nat) (hm : m < n) (hi : i < m) (hij : i < j) (hj : j < n) :
    ((i, j) ∈ givensLeft m n ∧ ∀ k, k < givensDepth n → (i, j) ∉ givensLayer m n k) ∨
    ((i, j) ∉ givensLeft m n ∧ ∃ k, k < givensDepth n ∧ (i, j) ∈ givensLayer m n k) := by
  by_cases hc : i + (n - m) < j
  · left
    refine ⟨(mem_givensLeft m n i j (by omega)).2 ⟨hj, hc⟩, ?_⟩
    intro k hk h; rw [mem_givensLayer m n k i j hm hk] at h; omega
  · right
    refine ⟨fun h => hc ((mem_givensLeft m n i j (by omega)).1 h).2, ?_⟩
    have hk : n - m + 2 * i - j < givensDepth n := by unfold givensDepth; omega
    exact ⟨_, hk, by rw [mem_givensLayer m n _ i j hm hk]; omega⟩

/-- Index-level zero persistence for `m < n` (`givensZeroBefore m n k i j` := `(i, j)` was zeroed by the
first stage or in an iteration `< k`): when `(i, j)` is zeroed in iteration `k` by mixing columns
`j-1, j`, then in every other row `i'` whose two mixed entries lie in the strict upper triangle
(`i' + 1 < j`) either both are already zero or neither is; rows above `i` are in the first case.
The diagonal entry `(j-1, j-1)` is never mixed with an already zeroed `(j-1, j)`. -/
theorem givens_zero_persistence (m n k i j i' : Nat) (hm : m < n) (hk : k < givensDepth n)
    (h : (i, j) ∈ givensLayer m n k) (hi' : i' < m) (hne : i' ≠ i) :
    (i' + 1 < j → (givensZeroBefore m n k i' (j - 1) ↔ givensZeroBefore m n k i' j)) ∧
    (i' < i → givensZeroBefore m n k i' j ∧ givensZeroBefore m n k i' (j - 1)) ∧
    (i' + 1 = j → ¬ givensZeroBefore m n k i' j) := by
  rw [mem_givensLayer m n k i j hm hk] at h
  have hlt : ∀ k', k' < k → k' < givensDepth n := fun k' h' => by omega
  have zb : ∀ jj, givensZeroBefore m n k i' jj ↔
      ((jj < n ∧ i' + (n - m) < jj) ∨ (i' < jj ∧ jj ≤ i' + (n - m) ∧ n - m + 2 * i' < k + jj)) := by
    intro jj
    unfold givensZeroBefore
    rw [mem_givensLeft m n i' jj (by omega)]
    constructor
    · rintro (h1 | ⟨k', hk', h2⟩)
      · left; exact h1
      · rw [mem_givensLayer m n k' i' jj hm (hlt k' hk')] at h2; right; omega
    · rintro (h1 | h2)
      · left; exact h1
      · right
        have hk2 : n - m + 2 * i' - jj < k := by omega
        exact ⟨n - m + 2 * i' - jj, hk2, by rw [mem_givensLayer m n _ i' jj hm (hlt _ hk2)]; omega⟩
  refine ⟨?_, ?_, ?_⟩
  · intro hup; rw [zb, zb]; omega
  · intro hlt'; rw [zb, zb]; omega
  · intro hd; rw [zb]; omega

example : givensLayer 2 5 1 = [(0, 2), (1, 4)] := by decide
example : givensLeft 3 5 = [(0, 4), (1, 4), (0, 3)] := by decide

/-! ## `fermionic_gaussian_decomposition` -/

theorem gauss_left_stage_mem (n l k : Nat) : (l, k) ∈ gaussLeft n ↔ l + k + 1 < n :=
  mem_gaussLeft n l k

/-- Complete characterisation: `(i, j)` of the left block is zeroed (by a double rotation of columns
`j, j+1`) in iteration `k` iff `j < n - 1`, `i + j ≥ n - 1` and `k = 2 i + j - (n - 1)`. -/
theorem gauss_schedule_mem (n k i j : Nat) :
    (i, j) ∈ gaussLayer n k ↔ i < n ∧ j + 1 < n ∧ n - 1 ≤ i + j ∧ k + (n - 1) = 2 * i + j :=
  mem_gaussLayer n k i j

/-- rotations act on adjacent modes `(j, j+1)` with `j + 1 ≤ n - 1`; in an even iteration (the only ones
that may contain the particle-hole transformation of mode `n - 1`) no rotation touches mode `n - 1` -/
theorem gauss_schedule_adjacent_pht (n k i j : Nat) (h : (i, j) ∈ gaussLayer n k) :
    j + 1 < n ∧ i < n ∧ (k % 2 = 0 → j + 1 < n - 1) := by
  rw [mem_gaussLayer] at h; omega

theorem gauss_schedule_disjoint (n k i j i' j' : Nat) (h : (i, j) ∈ gaussLayer n k)
    (h' : (i', j') ∈ gaussLayer n k) (hne : (i, j) ≠ (i', j')) : j + 2 ≤ j' ∨ j' + 2 ≤ j := by
  rw [mem_gaussLayer] at h h'
  have : i ≠ i' ∨ j ≠ j' := by
    by_cases hi : i = i'
    · right; intro hj; exact hne (by rw [hi, hj])
    · left; exact hi
  omega

/-- coverage: together with the left stage (`i + j < n - 1`) and the particle-hole transformations
(column `n - 1`, row `k / 2` in even iterations) every entry of the left block is treated; each entry
with `j < n - 1`, `i + j ≥ n - 1` in exactly one of the `2n - 1` iterations -/
theorem gauss_schedule_covers (n i j : Nat) (hi : i < n) (hj : j + 1 < n) (hij : n - 1 ≤ i + j) :
    ∃ k, k < gaussDepth n ∧ (i, j) ∈ gaussLayer n k ∧ ∀ k', (i, j) ∈ gaussLayer n k' → k' = k := by
  refine ⟨2 * i + j - (n - 1), ?_, ?_, ?_⟩
  · unfold gaussDepth; omega
  · rw [mem_gaussLayer]; omega
  · intro k' h; rw [mem_gaussLayer] at h; omega

/-- every rotation that zeroes an entry of row `i` is scheduled in an iteration `< 2 i`, so that the test
`abs(current_matrix[k // 2, n - 1]) > EQ_TOLERANCE` of the even iteration `k = 2 i` (particle-hole
transformation) sees row `i` after all of its rotations -/
theorem gauss_row_done_before_pht (n k i j : Nat) (h : (i, j) ∈ gaussLayer n k) : k < 2 * i := by
  rw [mem_gaussLayer] at h; omega

example : gaussLayer 4 3 = [(3, 0), (2, 2)] := by decide

end OFV.C11
