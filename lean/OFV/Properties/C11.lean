/-
C11 — property theorems: the rotation schedules of `givens_rotations.py` (all shapes, unbounded),
the layer structure of what the numeric Model emits, and the 2×2 identities of
`givens_matrix_elements`.  Helper lemmas live in `OFV/Proofs/C11*.lean`.

NOT proved here (see OPEN_STATEMENTS in harness/c11.py): the full reconstruction statements
`V Q U† = (D | 0)`, `Q = D U`, `V W U† = (0 | D)` as theorems about the numeric Model.  They are
checked by the reconstruction oracle on the implementation's outputs; the last one is false on the
real code for a singular left block (known finding F11, `gaussian_reconstruct_counterexample`).
-/
import OFV.Model.C11
import OFV.Proofs.C11
import OFV.Proofs.C11Num
import OFV.Proofs.C11Real
import OFV.Proofs.C11Double
import OFV.Proofs.C11GaussGram
import OFV.Proofs.C11Layers
import OFV.Proofs.C11Step
import OFV.Proofs.C11Sweep
import OFV.Proofs.C11Left
import OFV.Proofs.C11Unit
import OFV.Proofs.C11Diag
import OFV.Proofs.C11RowUnit
import OFV.Proofs.C11Exact
import OFV.Proofs.C11Prod
import OFV.Proofs.C11ProdLeft

namespace OFV.C11
open OFV OFV.Model.C11

/-! ## `givens_decomposition_square` : positions `(i, j)`, each zeroed by rotating columns `(j-1, j)` -/

/-- Complete characterisation of the anti-diagonal sweep: `(i, j)` is visited in iteration `k`
iff it lies in the strict upper triangle and `k = (n - 1) - j + 2 i`.  (All `n`, all `k`.) -/
theorem square_schedule_mem (n k i j : Nat) :
    (i, j) ∈ squareLayer n k ↔ i < j ∧ j < n ∧ k + j = n - 1 + 2 * i :=
  mem_squareLayer n k i j

/-- every rotation acts on the adjacent, valid column pair `(j - 1, j)` and on a valid row -/
theorem square_schedule_adjacent (n k i j : Nat) (h : (i, j) ∈ squareLayer n k) :
    (j - 1) + 1 = j ∧ j < n ∧ i < n := by
  rw [mem_squareLayer] at h; omega

/-- two different positions of one layer use disjoint column pairs `{j-1, j}`, `{j'-1, j'}` -/
theorem square_schedule_disjoint (n k i j i' j' : Nat) (h : (i, j) ∈ squareLayer n k)
    (h' : (i', j') ∈ squareLayer n k) (hne : (i, j) ≠ (i', j')) : j + 2 ≤ j' ∨ j' + 2 ≤ j := by
  rw [mem_squareLayer] at h h'
  have : i ≠ i' ∨ j ≠ j' := by
    by_cases hi : i = i'
    · right; intro hj; exact hne (by rw [hi, hj])
    · left; exact hi
  omega

/-- coverage: every position of the strict upper triangle is visited in exactly one of the
`2(n-1)-1` iterations (so the depth bound of the docstring is attained by the schedule itself) -/
theorem square_schedule_covers (n i j : Nat) (hi : i < j) (hj : j < n) :
    ∃ k, k < squareDepth n ∧ (i, j) ∈ squareLayer n k ∧ ∀ k', (i, j) ∈ squareLayer n k' → k' = k := by
  refine ⟨n - 1 + 2 * i - j, ?_, ?_, ?_⟩
  · unfold squareDepth; omega
  · rw [mem_squareLayer]; omega
  · intro k' h; rw [mem_squareLayer] at h; omega

/-- nothing outside the strict upper triangle is ever touched, in any iteration -/
theorem square_schedule_only_triangle (n k i j : Nat) (h : (i, j) ∈ squareLayer n k) :
    i < j ∧ j < n ∧ k < squareDepth n := by
  rw [mem_squareLayer] at h; unfold squareDepth; omega

/-- Index-level zero persistence.  When `(i, j)` is zeroed in iteration `k` by mixing columns `j-1, j`:
in every row `i' < i` both mixed entries were zeroed in strictly earlier iterations, and in every row
`i' > i` neither mixed entry of the upper triangle has been zeroed yet (not even in iteration `k`).
Hence a rotation only ever mixes two zeros or two not-yet-zeroed entries of the triangle. -/
theorem square_zero_persistence (n k i j i' : Nat) (h : (i, j) ∈ squareLayer n k) :
    (i' < i → (∃ k1, k1 < k ∧ (i', j) ∈ squareLayer n k1) ∧ (∃ k2, k2 < k ∧ (i', j - 1) ∈ squareLayer n k2)) ∧
    (i < i' → ∀ k', k' ≤ k → (i', j) ∉ squareLayer n k' ∧ (i', j - 1) ∉ squareLayer n k') := by
  rw [mem_squareLayer] at h
  constructor
  · intro hi
    exact ⟨⟨n - 1 + 2 * i' - j, by omega, by rw [mem_squareLayer]; omega⟩,
           ⟨n - 1 + 2 * i' - (j - 1), by omega, by rw [mem_squareLayer]; omega⟩⟩
  · intro hi k' hk'
    constructor <;> (intro hmem; rw [mem_squareLayer] at hmem; omega)

example : (1, 3) ∈ squareLayer 5 3 := by decide
example : squareLayer 5 4 = [(1, 2), (2, 4)] := by decide

/-! ## `givens_decomposition`, `m < n` : left-unitary stage and parallel sweep -/

/-- the left-unitary stage zeroes exactly the upper-right corner `j - i > n - m` -/
theorem givens_left_stage_mem (m n l k : Nat) (hm : m ≤ n) :
    (l, k) ∈ givensLeft m n ↔ k < n ∧ l + (n - m) < k :=
  mem_givensLeft m n l k hm

/-- Complete characterisation of the three-case sweep (`k < max_simul - 1`, `k > n - 1 - max_simul`,
middle): `(i, j)` is visited in iteration `k` iff `i < m`, `i < j ≤ i + (n - m)` and
`k = (n - m) - j + 2 i`. -/
theorem givens_schedule_mem (m n k i j : Nat) (hm : m < n) (hk : k < givensDepth n) :
    (i, j) ∈ givensLayer m n k ↔ i < m ∧ i < j ∧ j ≤ i + (n - m) ∧ k + j = n - m + 2 * i :=
  mem_givensLayer m n k i j hm hk

theorem givens_schedule_adjacent (m n k i j : Nat) (hm : m < n) (hk : k < givensDepth n)
    (h : (i, j) ∈ givensLayer m n k) : (j - 1) + 1 = j ∧ j < n ∧ i < m := by
  rw [mem_givensLayer m n k i j hm hk] at h; omega

theorem givens_schedule_disjoint (m n k i j i' j' : Nat) (hm : m < n) (hk : k < givensDepth n)
    (h : (i, j) ∈ givensLayer m n k) (h' : (i', j') ∈ givensLayer m n k) (hne : (i, j) ≠ (i', j')) :
    j + 2 ≤ j' ∨ j' + 2 ≤ j := by
  rw [mem_givensLayer m n k _ _ hm hk] at h h'
  have : i ≠ i' ∨ j ≠ j' := by
    by_cases hi : i = i'
    · right; intro hj; exact hne (by rw [hi, hj])
    · left; exact hi
  omega

/-- coverage: the band `i < j ≤ i + (n - m)` left by the first stage is visited exactly once within
the `n - 1` iterations ("the circuit depth is n - 1") -/
theorem givens_schedule_covers (m n i j : Nat) (hm : m < n) (hi : i < m) (hij : i < j) (hj : j ≤ i + (n - m)) :
    ∃ k, k < givensDepth n ∧ (i, j) ∈ givensLayer m n k ∧
      ∀ k', k' < givensDepth n → (i, j) ∈ givensLayer m n k' → k' = k := by
  have hk : n - m + 2 * i - j < givensDepth n := by unfold givensDepth; omega
  refine ⟨n - m + 2 * i - j, hk, ?_, ?_⟩
  · rw [mem_givensLayer m n _ i j hm hk]; omega
  · intro k' hk' h; rw [mem_givensLayer m n k' i j hm hk'] at h; omega

/-- first stage and sweep together cover the whole strict upper triangle of the `m × n` matrix, and no
position is treated by both -/
theorem givens_upper_triangle_covered (m n i j : Nat) (hm : m < n) (hi : i < m) (hij : i < j) (hj : j < n) :
    ((i, j) ∈ givensLeft m n ∧ ∀ k, k < givensDepth n → (i, j) ∉ givensLayer m n k) ∨
    ((i, j) ∉ givensLeft m n ∧ ∃ k, k < givensDepth n ∧ (i, j) ∈ givensLayer m n k) := by
  by_cases hc : i + (n - m) < j
  · left
    refine ⟨(mem_givensLeft m n i j (by omega)).2 ⟨hj, hc⟩, ?_⟩
    intro k hk h; rw [mem_givensLayer m n k i j hm hk] at h; omega
  · right
    refine ⟨fun h => hc ((mem_givensLeft m n i j (by omega)).1 h).2, ?_⟩
    have hk : n - m + 2 * i - j < givensDepth n := by unfold givensDepth; omega
    exact ⟨_, hk, by rw [mem_givensLayer m n _ i j hm hk]; omega⟩

/-- Index-level zero persistence for `m < n` (`givensZeroBefore m n k i j` := `(i, j)` was zeroed by the
first stage or in an iteration `< k`): when `(i, j)` is zeroed in iteration `k` by mixing columns
`j-1, j`, then in every other row `i'` whose two mixed entries lie in the strict upper triangle
(`i' + 1 < j`) either both are already zero or neither is; rows above `i` are in the first case.
The diagonal entry `(j-1, j-1)` is never mixed with an already zeroed `(j-1, j)`. -/
theorem givens_zero_persistence (m n k i j i' : Nat) (hm : m < n) (hk : k < givensDepth n)
    (h : (i, j) ∈ givensLayer m n k) (hi' : i' < m) (hne : i' ≠ i) :
    (i' + 1 < j → (givensZeroBefore m n k i' (j - 1) ↔ givensZeroBefore m n k i' j)) ∧
    (i' < i → givensZeroBefore m n k i' j ∧ givensZeroBefore m n k i' (j - 1)) ∧
    (i' + 1 = j → ¬ givensZeroBefore m n k i' j) := by
  rw [mem_givensLayer m n k i j hm hk] at h
  have hlt : ∀ k', k' < k → k' < givensDepth n := fun k' h' => by omega
  have zb : ∀ jj, givensZeroBefore m n k i' jj ↔
      ((jj < n ∧ i' + (n - m) < jj) ∨ (i' < jj ∧ jj ≤ i' + (n - m) ∧ n - m + 2 * i' < k + jj)) := by
    intro jj
    unfold givensZeroBefore
    rw [mem_givensLeft m n i' jj (by omega)]
    constructor
    · rintro (h1 | ⟨k', hk', h2⟩)
      · left; exact h1
      · rw [mem_givensLayer m n k' i' jj hm (hlt k' hk')] at h2; right; omega
    · rintro (h1 | h2)
      · left; exact h1
      · right
        have hk2 : n - m + 2 * i' - jj < k := by omega
        exact ⟨n - m + 2 * i' - jj, hk2, by rw [mem_givensLayer m n _ i' jj hm (hlt _ hk2)]; omega⟩
  refine ⟨?_, ?_, ?_⟩
  · intro hup; rw [zb, zb]; omega
  · intro hlt'; rw [zb, zb]; omega
  · intro hd; rw [zb]; omega

example : givensLayer 2 5 1 = [(0, 2), (1, 4)] := by decide
example : givensLeft 3 5 = [(0, 4), (1, 4), (0, 3)] := by decide

/-! ## `fermionic_gaussian_decomposition` -/

theorem gauss_left_stage_mem (n l k : Nat) : (l, k) ∈ gaussLeft n ↔ l + k + 1 < n :=
  mem_gaussLeft n l k

/-- Complete characterisation: `(i, j)` of the left block is zeroed (by a double rotation of columns
`j, j+1`) in iteration `k` iff `j < n - 1`, `i + j ≥ n - 1` and `k = 2 i + j - (n - 1)`. -/
theorem gauss_schedule_mem (n k i j : Nat) :
    (i, j) ∈ gaussLayer n k ↔ i < n ∧ j + 1 < n ∧ n - 1 ≤ i + j ∧ k + (n - 1) = 2 * i + j :=
  mem_gaussLayer n k i j

/-- rotations act on adjacent modes `(j, j+1)` with `j + 1 ≤ n - 1`; in an even iteration (the only ones
that may contain the particle-hole transformation of mode `n - 1`) no rotation touches mode `n - 1` -/
theorem gauss_schedule_adjacent_pht (n k i j : Nat) (h : (i, j) ∈ gaussLayer n k) :
    j + 1 < n ∧ i < n ∧ (k % 2 = 0 → j + 1 < n - 1) := by
  rw [mem_gaussLayer] at h; omega

theorem gauss_schedule_disjoint (n k i j i' j' : Nat) (h : (i, j) ∈ gaussLayer n k)
    (h' : (i', j') ∈ gaussLayer n k) (hne : (i, j) ≠ (i', j')) : j + 2 ≤ j' ∨ j' + 2 ≤ j := by
  rw [mem_gaussLayer] at h h'
  have : i ≠ i' ∨ j ≠ j' := by
    by_cases hi : i = i'
    · right; intro hj; exact hne (by rw [hi, hj])
    · left; exact hi
  omega

/-- coverage: together with the left stage (`i + j < n - 1`) and the particle-hole transformations
(column `n - 1`, row `k / 2` in even iterations) every entry of the left block is treated; each entry
with `j < n - 1`, `i + j ≥ n - 1` in exactly one of the `2n - 1` iterations -/
theorem gauss_schedule_covers (n i j : Nat) (hi : i < n) (hj : j + 1 < n) (hij : n - 1 ≤ i + j) :
    ∃ k, k < gaussDepth n ∧ (i, j) ∈ gaussLayer n k ∧ ∀ k', (i, j) ∈ gaussLayer n k' → k' = k := by
  refine ⟨2 * i + j - (n - 1), ?_, ?_, ?_⟩
  · unfold gaussDepth; omega
  · rw [mem_gaussLayer]; omega
  · intro k' h; rw [mem_gaussLayer] at h; omega

/-- every rotation that zeroes an entry of row `i` is scheduled in an iteration `< 2 i`, so that the test
`abs(current_matrix[k // 2, n - 1]) > EQ_TOLERANCE` of the even iteration `k = 2 i` (particle-hole
transformation) sees row `i` after all of its rotations -/
theorem gauss_row_done_before_pht (n k i j : Nat) (h : (i, j) ∈ gaussLayer n k) : k < 2 * i := by
  rw [mem_gaussLayer] at h; omega

example : gaussLayer 4 3 = [(3, 0), (2, 2)] := by decide

/-! ## What the numeric Model emits (the functions the driver runs against the real code) -/

/-- `givens_decomposition_square` (Model), any input, any tolerance, `always_insert` or not: whenever it
returns, there are at most `2(n-1)-1` layers, none empty; every rotation acts on adjacent in-range
indices `(j-1, j)`; the rotations of a layer are ordered with gaps ≥ 2, i.e. act on disjoint pairs. -/
theorem square_emitted_structure (tol : Rat) (Q : Mat) (ai : Bool) (ls : List (List Rot)) (d : List GQ)
    (h : decompSquare tol Q ai = .ok (ls, d)) :
    ls.length ≤ squareDepth Q.length ∧
    ∀ l ∈ ls, l ≠ [] ∧ (∀ r ∈ l, r.i + 1 = r.j ∧ r.j < Q.length) ∧ l.Pairwise (fun r r' => r.j + 2 ≤ r'.j) := by
  unfold decompSquare at h
  cases hS : colSweep tol (squareLayer Q.length) ai (List.range (squareDepth Q.length)) Q with
  | error e => simp [hS, bind, Except.bind] at h
  | ok t =>
    obtain ⟨ls', M⟩ := t
    simp only [hS, bind, Except.bind] at h
    injection h with h; injection h with h1 h2; subst h1
    obtain ⟨hlen, hall⟩ := colSweep_layers tol _ ai _ _ _ _ hS
    refine ⟨by simpa using hlen, ?_⟩
    intro l hl
    obtain ⟨hne, k, _, hs⟩ := hall l hl
    obtain ⟨hmem, hpw⟩ := sublayer_structure (squareLayer_pairwise _ k) hs
    refine ⟨hne, ?_, hpw⟩
    intro r hr
    obtain ⟨⟨i, j⟩, hp, h1, h2⟩ := hmem r hr
    rw [mem_squareLayer] at hp
    simp only at h1 h2
    omega

/-- the same for `givens_decomposition` (Model) on an `m × n` input with `m < n`: at most `n - 1` layers -/
theorem givens_emitted_structure (tol : Rat) (Q : Mat) (n : Nat) (ai : Bool) (out : GivensOut)
    (hm : Q.length < n) (h : decompGivens tol Q n ai = .ok out) :
    out.layers.length ≤ givensDepth n ∧
    ∀ l ∈ out.layers, l ≠ [] ∧ (∀ r ∈ l, r.i + 1 = r.j ∧ r.j < n) ∧ l.Pairwise (fun r r' => r.j + 2 ≤ r'.j) := by
  unfold decompGivens at h
  simp only at h
  rw [if_neg (by omega)] at h
  cases hL : leftStage tol (givensLeft Q.length n) Q (Mat.identity Q.length) with
  | error e => simp [hL, bind, Except.bind] at h
  | ok t =>
    obtain ⟨M, V⟩ := t
    simp only [hL, bind, Except.bind] at h
    rw [if_neg (by omega)] at h
    cases hS : colSweep tol (givensLayer Q.length n) ai (List.range (givensDepth n)) M with
    | error e => simp [hS] at h
    | ok t2 =>
      obtain ⟨ls', M'⟩ := t2
      simp only [hS] at h
      injection h with h; subst h
      obtain ⟨hlen, hall⟩ := colSweep_layers tol _ ai _ _ _ _ hS
      refine ⟨by simpa using hlen, ?_⟩
      intro l hl
      obtain ⟨hne, k, hk, hs⟩ := hall l hl
      obtain ⟨hmem, hpw⟩ := sublayer_structure (givensLayer_pairwise _ _ k) hs
      refine ⟨hne, ?_, hpw⟩
      intro r hr
      obtain ⟨⟨i, j⟩, hp, h1, h2⟩ := hmem r hr
      rw [mem_givensLayer _ _ _ _ _ hm (by simpa [givensDepth] using List.mem_range.mp hk)] at hp
      simp only at h1 h2
      omega

/-- `fermionic_gaussian_decomposition` (Model), any `N × 2N` input on which it returns: at most `2N - 1`
layers, none empty; a layer is an optional leading `'pht'` followed by rotations of adjacent in-range modes
`(j, j+1)`, `j + 1 ≤ N - 1`, ordered with gaps ≥ 2 (disjoint pairs); and in a layer that contains the
particle-hole transformation (mode `N - 1`) no rotation touches mode `N - 1`. -/
theorem gaussian_emitted_structure (tol : Rat) (W : Mat) (p : Nat) (out : GaussOut)
    (h : decompGauss tol W p = .ok out) :
    out.layers.length ≤ gaussDepth W.length ∧
    ∀ l ∈ out.layers, l ≠ [] ∧ ∃ rs : List Rot,
      (l = rs.map GOp.rot ∨ (l = GOp.pht :: rs.map GOp.rot ∧ ∀ r ∈ rs, r.j < W.length - 1)) ∧
      (∀ r ∈ rs, r.i + 1 = r.j ∧ r.j < W.length) ∧ rs.Pairwise (fun r r' => r.j + 2 ≤ r'.j) := by
  unfold decompGauss at h
  simp only at h
  split at h
  · simp at h
  · split at h
    · simp at h
    · cases hL : leftStage tol (gaussLeft W.length) W (Mat.identity W.length) with
      | error e => simp [hL, bind, Except.bind] at h
      | ok t =>
        obtain ⟨M, V⟩ := t
        cases hS : gaussSweep tol W.length (List.range (gaussDepth W.length)) M with
        | error e => simp [hL, hS, bind, Except.bind] at h
        | ok t2 =>
          obtain ⟨ls, M'⟩ := t2
          simp only [hL, hS, bind, Except.bind] at h
          split at h
          · simp at h
          · rename_i x y hsq
            injection h with h; subst h
            obtain ⟨hlen, hall⟩ := gaussSweep_layers tol W.length _ _ _ _ hS
            refine ⟨by simpa using hlen, ?_⟩
            intro l hl
            obtain ⟨hne, k, _, rs, hform, hs⟩ := hall l hl
            obtain ⟨hmem, hpw⟩ := gauss_sublayer_structure (gaussLayer_pairwise _ k) hs
            have hbounds : ∀ r ∈ rs, r.i + 1 = r.j ∧ r.j < W.length ∧ (k % 2 = 0 → r.j < W.length - 1) := by
              intro r hr
              obtain ⟨⟨i, j⟩, hp, h1, h2⟩ := hmem r hr
              rw [mem_gaussLayer] at hp
              simp only at h1 h2
              omega
            refine ⟨hne, rs, ?_, fun r hr => ⟨(hbounds r hr).1, (hbounds r hr).2.1⟩, hpw⟩
            rcases hform with h1 | ⟨h1, hk⟩
            · left; exact h1
            · right; exact ⟨h1, fun r hr => (hbounds r hr).2.2 hk⟩

-- non-vacuity: a BCS-like pairing matrix (u, v) = (3/5, 4/5): one 'pht' and one rotation are emitted
example : (decompGauss (1/100000000) [[⟨3/5, 0⟩, 0, 0, ⟨4/5, 0⟩], [0, ⟨3/5, 0⟩, ⟨-4/5, 0⟩, 0]] 4).toOption.map
    (fun o => o.layers.map (·.map fun op => match op with | .pht => (9, 9) | .rot r => r.idx)) =
    some [[(9, 9)], [(0, 1)], [(9, 9)]] := by decide +kernel

-- non-vacuity: the Model returns on a 3-4-5 rotation (one layer, one rotation) and on a 2 × 3 isometry
example : (decompSquare (1/100000000) [[⟨3/5, 0⟩, ⟨4/5, 0⟩], [⟨-4/5, 0⟩, ⟨3/5, 0⟩]] false).toOption.map
    (fun r => r.1.map (·.map Rot.idx)) = some [[(0, 1)]] := by decide +kernel
example : (decompGivens (1/100000000) [[0, ⟨3/5, 0⟩, ⟨0, 4/5⟩], [1, 0, 0]] 3 false).toOption.map
    (fun o => o.layers.map (·.map Rot.idx)) = some [[(1, 2)]] := by decide +kernel

/-! ## `givens_matrix_elements` -/

/-- For every pair `(a, b)` in the exact regime (an entry below the tolerance is exactly zero; an imaginary
part of the relative phase `(a/|a|) conj(b/|b|)` below the tolerance is exactly zero - `RealExact`, the test of the
repaired code 7be94873) on which the Model is defined, in all three branches and all four
matrix forms: `G` is unitary, `G (a, b)ᵀ` has the promised zero, and the rotation
`[[cos θ, -e^{iφ} sin θ], [sin θ, e^{iφ} cos θ]]` rebuilt from the returned parameters
`θ = arcsin(Re G₁₀)`, `φ = angle(G₁₁)` is `G` itself (for `sine = 0` in the complex `which='right'`
form this rests on `angle(-0.0) = π`, which the Model records in `negZero11`; since repair 7be94873 the code
reaches `sine = 0` only with `phase = 1.0`, i.e. in the real form, so that case is covered but no longer produced). -/
theorem givens_matrix_elements_sound (tol : Rat) (htol : 0 < tol) (a b : GQ) (right : Bool) (G : G2)
    (hexa : small tol a = true → a = 0) (hexb : small tol b = true → b = 0)
    (hreal : RealExact tol a b)
    (h : givensElems tol a b right = .ok G) :
    G.Unitary ∧ G.Zeroes right a b ∧
    ∀ s c e, params G = .ok (s, c, e) → (rotationOf s c e).SameEntries G := by
  obtain ⟨c, s, ph, hC, hr, rfl⟩ := givensElems_inv hreal h
  have hcsp := cosSinPhase_spec htol hexa hexb hC
  exact ⟨assemble_unitary hcsp right _ hr, assemble_zeroes hcsp right _ hr,
         fun s' c' e hp => params_assemble hcsp right _ hr hp⟩

-- non-vacuity (generic branch, complex form): a = 3/5, b = 4i/5, which = 'right'
example : (givensElems (1/100000000) ⟨3/5, 0⟩ ⟨0, 4/5⟩ true).toOption.map
    (fun G => (G.g00, G.g01, G.g10, G.g11)) = some (⟨3/5, 0⟩, ⟨0, -4/5⟩, ⟨4/5, 0⟩, ⟨0, 3/5⟩) := by decide +kernel
example : small (1/100000000) ⟨3/5, 0⟩ = false ∧ small (1/100000000) ⟨0, 4/5⟩ = false ∧
    (cosSinPhase (1/100000000) ⟨3/5, 0⟩ ⟨0, 4/5⟩).toOption.map (fun t => (t.2.2, realPhase (1/100000000) t.2.2)) =
      some (⟨0, -1⟩, false) ∧
    realExactB (1/100000000) ⟨3/5, 0⟩ ⟨0, 4/5⟩ = true := by decide +kernel
-- non-vacuity (real relative phase of two imaginary entries, a = 3i/5, b = -4i/5: the standard rotation is chosen since
-- repair 7be94873; the earlier test on the imaginary parts of a and b chose the complex form)
example : (givensElems (1/100000000) ⟨0, 3/5⟩ ⟨0, -4/5⟩ false).toOption.map
    (fun G => (G.g00, G.g01, G.g10, G.g11)) = some (⟨4/5, 0⟩, ⟨3/5, 0⟩, ⟨-3/5, 0⟩, ⟨4/5, 0⟩) ∧
    realExactB (1/100000000) ⟨0, 3/5⟩ ⟨0, -4/5⟩ = true := by decide +kernel
-- a = 0, complex b, 'right': phase = 1.0, so (since repair 7be94873) the real form with G₁₁ = +0.0 ...
example : (givensElems (1/100000000) 0 ⟨0, 1⟩ true).toOption.map (fun G => (G.g11, G.negZero11)) =
    some (0, false) := by decide +kernel
-- ... while the complex 'right' form with sine = 0 (covered by the statement for every phase) has G₁₁ = -0.0
example : (assemble true false 1 0 1).negZero11 = true := by decide +kernel

/-- the executable test `realExactB` (used by the driver's `c11.hypotheses`) decides the exact regime of the real / complex
decision exactly -/
theorem real_exact_test_decides (tol : Rat) (a b : GQ) : realExactB tol a b = true ↔ RealExact tol a b :=
  realExactB_iff

/-- **pairs with a real ratio** (`Im(a conj b) = 0`: real pairs, purely imaginary pairs, any common phase factor) need no
hypothesis on the real / complex decision: the relative phase is exactly `±1`, the standard rotation is chosen, and the
statement of `givens_matrix_elements_sound` holds with the two entry hypotheses alone.  (Before the repair 7be94873 the
code chose the complex form for purely imaginary pairs and — the defect — the real form for tiny entries with a
non-real ratio.) -/
theorem givens_matrix_elements_sound_real_ratio (tol : Rat) (htol : 0 < tol) (a b : GQ) (right : Bool) (G : G2)
    (hexa : small tol a = true → a = 0) (hexb : small tol b = true → b = 0)
    (hab : a.im * b.re = a.re * b.im)
    (h : givensElems tol a b right = .ok G) :
    G.Unitary ∧ G.Zeroes right a b ∧
    ∀ s c e, params G = .ok (s, c, e) → (rotationOf s c e).SameEntries G :=
  givens_matrix_elements_sound tol htol a b right G hexa hexb (realExact_of_real_ratio htol hexa hexb hab) h

-- non-vacuity: a purely imaginary pair
example : (⟨0, 3/5⟩ : GQ).im * (⟨0, -4/5⟩ : GQ).re = (⟨0, 3/5⟩ : GQ).re * (⟨0, -4/5⟩ : GQ).im ∧
    (givensElems (1/100000000) ⟨0, 3/5⟩ ⟨0, -4/5⟩ false).toOption.isSome = true := by decide +kernel

/-- why the repaired test looks at the phase: the standard ("real") rotation form assembled with a non-real phase is not
unitary — `phase = i`, `cos = 3/5`, `sin = 4/5` (what the code before 7be94873 produced for tiny entries whose imaginary
parts were below the tolerance although their ratio was not real) -/
theorem test_real_form_needs_real_phase : ¬ (assemble false true (3/5) (4/5) ⟨0, 1⟩).Unitary := by
  unfold G2.Unitary; decide +kernel

/-- **`double_givens_rotate(W, G, i, j, which='col')` preserves the first canonical constraint.**  For every `m × 2N` matrix
and every column-isometric `G` (in particular every `G` returned by `givens_matrix_elements` in the exact regime,
`givensElems_colIsometry`) the rotation of columns `i, j` by `G` and of columns `N+i, N+j` by `conj G` leaves all inner
products of rows unchanged: `W W† = W₁W₁† + W₂W₂†` is invariant under each double rotation of
`fermionic_gaussian_decomposition` (a step of the open Gaussian reconstruction statement). -/
theorem double_rotation_preserves_row_gram (M : Mat) (m N : Nat) (hM : Rect M m (2 * N)) (G : G2) (hG : G.ColIsometry)
    (i j : Nat) (hij : i ≠ j) (hi : i < N) (hj : j < N) :
    Rect (doubleRotateCols M G N i j) m (2 * N) ∧ SameGram M (doubleRotateCols M G N i j) m (2 * N) :=
  doubleRotateCols_gram hM hG i j hij hi hj

/-- **The column sweep of `fermionic_gaussian_decomposition` preserves `W W†`.**  For every `m × 2N` matrix, whenever the
Model's sweep (particle-hole swaps of columns `N-1, 2N-1` and double Givens rotations, `gaussSweep`) returns and the run
stays in the exact regime (`GaussSweepExact`: every entry compared with the tolerance is exactly zero or not below it,
the real / complex decisions are exact), the matrix after the sweep has the same inner products of rows as the input: the
first canonical constraint `W₁W₁† + W₂W₂† = 1` is an invariant of the whole sweep, singular left blocks (F11) included.
(Part of the open reconstruction statement; the second constraint `W₁W₂ᵀ + W₂W₁ᵀ = 0` is not covered.) -/
theorem gaussian_sweep_preserves_row_gram (tol : Rat) (htol : 0 < tol) (m n : Nat) (hn : 1 ≤ n) (ks : List Nat)
    (M : Mat) (ls : List (List GOp)) (M' : Mat) (h : gaussSweep tol n ks M = .ok (ls, M'))
    (hex : GaussSweepExact tol n ks M) (hR : Rect M m (2 * n)) :
    Rect M' m (2 * n) ∧ SameGram M M' m (2 * n) :=
  gaussSweep_gram tol htol m n hn ks M ls M' h hex hR

/-- the particle-hole step alone (`swap_columns(W, N-1, 2N-1)`) preserves the inner products of rows -/
theorem particle_hole_swap_preserves_row_gram (M : Mat) (m n : Nat) (hn : 1 ≤ n) (hR : Rect M m (2 * n)) :
    Rect (swapCols M (n - 1) (2 * n - 1)) m (2 * n) ∧ SameGram M (swapCols M (n - 1) (2 * n - 1)) m (2 * n) :=
  swapCols_gram hR (n - 1) (2 * n - 1) (by omega) (by omega) (by omega)

-- non-vacuity: the F11 witness [[0,0,0,1],[0,0,1,0]] (N = 2): the sweep returns and its rows are orthonormal; the
-- exact-regime predicate is inhabited
example : (gaussSweep (1/100000000) 2 [0, 1, 2] [[0, 0, 0, 1], [0, 0, 1, 0]]).toOption.isSome = true ∧
    orthonormalB [[0, 0, 0, 1], [0, 0, 1, 0]] 2 4 = true := by decide +kernel
example (M : Mat) : GaussSweepExact (1/100000000) 2 [] M := trivial

/-- signed zero matters: with `a = 0`, complex `b` and `which='right'` the Model yields `G₁₁ = -0.0` and
`e^{iφ} = -1`; with `+0.0` (`e^{iφ} = 1`) the rebuilt rotation would differ from `G` in entry `[0,1]` -/
theorem test_signed_zero_needed :
    (rotationOf 1 0 (-1)).g01 = (1 : GQ) ∧ (rotationOf 1 0 1).g01 = (-1 : GQ) := by
  constructor <;> (refine GQ.ext ?_ ?_ <;> simp [rotationOf, GQ.ofRat])

/-! ## The elementary step of the column sweeps (numeric level) -/

/-- In the exact regime, the step of `givens_decomposition(_square)` for position `(i, j)` —
`G = givens_matrix_elements(conj M[i,j-1], conj M[i,j], 'right')`, `givens_rotate(M, G, j-1, j, 'col')` —
makes entry `(i, j)` exactly zero (all matrices, all positions). -/
theorem column_step_zeroes_target (tol : Rat) (htol : 0 < tol) (M : Mat) (i j : Nat) (G : G2)
    (hi : i < M.length) (hj : 1 ≤ j) (hrow : j < (M.getD i []).length)
    (hexa : small tol (M.get i (j - 1)).conj = true → (M.get i (j - 1)).conj = 0)
    (hexb : small tol (M.get i j).conj = true → (M.get i j).conj = 0)
    (hreal : RealExact tol (M.get i (j - 1)).conj (M.get i j).conj)
    (hG : givensElems tol (M.get i (j - 1)).conj (M.get i j).conj true = .ok G) :
    (rotateCols M G (j - 1) j).get i j = 0 :=
  column_step_zeroes_target_aux tol htol M i j G hi hj hrow hexa hexb hreal hG

/-- numeric zero persistence of one step: a row whose two mixed entries are both zero keeps them zero, and
entries outside the two rotated columns are untouched (any `G`) -/
theorem column_step_keeps_zero_pairs (M : Mat) (G : G2) (i' j x : Nat) (hi : i' < M.length) (hj : 1 ≤ j)
    (hrow : j < (M.getD i' []).length) :
    (M.get i' (j - 1) = 0 → M.get i' j = 0 →
      (rotateCols M G (j - 1) j).get i' (j - 1) = 0 ∧ (rotateCols M G (j - 1) j).get i' j = 0) ∧
    (x ≠ j → x ≠ j - 1 → (rotateCols M G (j - 1) j).get i' x = M.get i' x) :=
  column_step_keeps_aux M G i' j x hi hj hrow

/-- **The sweep of `givens_decomposition_square` annihilates the strict upper triangle.**
For every `n × n` matrix `Q` (no unitarity needed for this part), `always_insert` or not, whenever the Model's
sweep returns and the run stays in the exact regime (`SweepExact`: every entry compared with the tolerance
along the run is exactly zero or not below it — the harness establishes this per input by re-running the Model
with the tolerance scaled by 1000 and 1/1000), the final matrix `M'` — whose diagonal is the returned
`diagonal` — has `M'[i, j] = 0` for all `i < j < n`.
Proof: induction over the `2(n-1)-1` iterations with the invariant "every position scheduled so far is zero",
using `colLayer_effect` (targets zeroed, disjoint pairs, zero pairs kept) and the schedule characterisation
(`square_zero_persistence` is the index fact that makes the invariant inductive).
Together with orthonormal rows this gives `M' = D` diagonal with `|D_ii| = 1` (upper-triangular unitary ⇒
diagonal; NOT formalised), and `M' = Q G₁† ⋯ G_k†` by construction of `rotateCols` (NOT formalised). -/
theorem square_sweep_annihilates_upper_triangle (tol : Rat) (htol : 0 < tol) (ai : Bool) (n : Nat) (Q : Mat)
    (ls : List (List Rot)) (M' : Mat) (hQ : Rect Q n n)
    (h : colSweep tol (squareLayer n) ai (List.range (squareDepth n)) Q = .ok (ls, M'))
    (hex : SweepExact tol ai (squareLayer n) (List.range (squareDepth n)) Q) :
    Rect M' n n ∧ ∀ i j, i < j → j < n → M'.get i j = 0 := by
  rw [List.range_eq_range'] at h hex
  obtain ⟨hR, hz⟩ := square_sweep_invariant tol htol ai n _ 0 Q ls M' h hex hQ (fun _ _ k' hk' => by omega)
  refine ⟨hR, ?_⟩
  intro i j hij hjn
  obtain ⟨k, hk, hmem, _⟩ := square_schedule_covers n i j hij hjn
  exact hz i j k (by omega) hmem

/-- **Second stage of `givens_decomposition` (`m < n`).**  If the matrix handed to the sweep has the corner
`j - i > n - m` zero (what the left-unitary stage is for; hypothesis here) then, in the exact regime, after the
`n - 1` iterations every entry `(i, j)` with `i < m`, `i < j < n` is zero: the first `m` columns hold the
returned diagonal, the strict upper part — including all columns `≥ m` above the diagonal band — vanishes. -/
theorem givens_sweep_annihilates_upper_part (tol : Rat) (htol : 0 < tol) (ai : Bool) (m n : Nat) (hm : m < n)
    (M : Mat) (ls : List (List Rot)) (M' : Mat) (hM : Rect M m n)
    (hcorner : ∀ i j, (i, j) ∈ givensLeft m n → M.get i j = 0)
    (h : colSweep tol (givensLayer m n) ai (List.range (givensDepth n)) M = .ok (ls, M'))
    (hex : SweepExact tol ai (givensLayer m n) (List.range (givensDepth n)) M) :
    Rect M' m n ∧ ∀ i j, i < m → i < j → j < n → M'.get i j = 0 := by
  rw [List.range_eq_range'] at h hex
  obtain ⟨hR, hc, hz⟩ := givens_sweep_invariant tol htol ai m n hm _ 0 M ls M' h hex hM
    (by unfold givensDepth; omega) hcorner (fun _ _ k' hk' => by omega)
  refine ⟨hR, ?_⟩
  intro i j hi hij hjn
  rcases givens_upper_triangle_covered m n i j hm hi hij hjn with ⟨hl, _⟩ | ⟨_, k, hk, hmem⟩
  · exact hc i j hl
  · exact hz i j k (by omega) hmem

/-- the left-unitary stage of `givens_decomposition` (rotations of rows `l, l+1`, column by column from the
right) zeroes the whole corner `j - i > n - m`, in the exact regime (`LeftExact` follows the run) -/
theorem givens_left_stage_zeroes_corner (tol : Rat) (htol : 0 < tol) (m n : Nat) (hmn : m ≤ n) (Q V M V' : Mat)
    (h : leftStage tol (givensLeft m n) Q V = .ok (M, V')) (hex : LeftExact tol (givensLeft m n) Q)
    (hQ : Rect Q m n) : Rect M m n ∧ ∀ i j, (i, j) ∈ givensLeft m n → M.get i j = 0 :=
  leftStage_zeroes_corner tol htol m n hmn Q V M V' h hex hQ

/-- **`givens_decomposition`, `m < n`, both stages** (the Model function the driver runs is exactly their
composition, see `givens_decomposition_is_two_stages`): in the exact regime the final matrix has every
entry above the diagonal equal to zero, i.e. it is `(L | 0)` with `L` lower triangular `m × m`; with
orthonormal rows `L` is then diagonal of unit modulus (that last linear-algebra step is NOT formalised). -/
theorem givens_decomposition_annihilates_upper_part (tol : Rat) (htol : 0 < tol) (ai : Bool) (m n : Nat)
    (hm : m < n) (Q V0 M V : Mat) (ls : List (List Rot)) (M' : Mat) (hQ : Rect Q m n)
    (h1 : leftStage tol (givensLeft m n) Q V0 = .ok (M, V)) (hex1 : LeftExact tol (givensLeft m n) Q)
    (h2 : colSweep tol (givensLayer m n) ai (List.range (givensDepth n)) M = .ok (ls, M'))
    (hex2 : SweepExact tol ai (givensLayer m n) (List.range (givensDepth n)) M) :
    Rect M' m n ∧ ∀ i j, i < m → i < j → j < n → M'.get i j = 0 := by
  obtain ⟨hR, hc⟩ := leftStage_zeroes_corner tol htol m n (by omega) Q V0 M V h1 hex1 hQ
  exact givens_sweep_annihilates_upper_part tol htol ai m n hm M ls M' hR hc h2 hex2

/-- **`givens_decomposition` brings every `m × n` isometry (`m < n`) to `(D | 0)` (exact regime).**
Rows of `Q` orthonormal; left-unitary stage (row rotations by unitary 2×2 matrices) followed by the column sweep
(column rotations).  Then the final matrix `M' = V Q U†` has `M'[i,j] = 0` for all `i ≠ j` (`i < m`, `j < n`) and
`|M'[j,j]| = 1` for `j < m` — the statement `V Q U† = D` of the docstring with a unit-modulus diagonal.
Not formalised: that the returned `left_unitary` / rotation list multiply out to `V` / `U` (bookkeeping of the same
elementary updates, checked numerically by the reconstruction oracle). -/
theorem givens_decomposition_diagonalises (tol : Rat) (htol : 0 < tol) (ai : Bool) (m n : Nat)
    (hm : m < n) (Q V0 M V : Mat) (ls : List (List Rot)) (M' : Mat) (hQ : Rect Q m n)
    (horth : RowsOrthonormal Q m n)
    (h1 : leftStage tol (givensLeft m n) Q V0 = .ok (M, V)) (hex1 : LeftExact tol (givensLeft m n) Q)
    (h2 : colSweep tol (givensLayer m n) ai (List.range (givensDepth n)) M = .ok (ls, M'))
    (hex2 : SweepExact tol ai (givensLayer m n) (List.range (givensDepth n)) M) :
    (∀ i j, i < m → j < n → i ≠ j → M'.get i j = 0) ∧
    (∀ j, j < m → (M'.get j j).re * (M'.get j j).re + (M'.get j j).im * (M'.get j j).im = 1) := by
  obtain ⟨hR, hc⟩ := leftStage_zeroes_corner tol htol m n (by omega) Q V0 M V h1 hex1 hQ
  obtain ⟨_, hup⟩ := givens_sweep_annihilates_upper_part tol htol ai m n hm M ls M' hR hc h2 hex2
  have hleftval : ∀ p ∈ givensLeft m n, p.1 + 1 < m := by
    intro p hp
    obtain ⟨l, k⟩ := p
    have := (mem_givensLeft m n l k (by omega)).1 hp
    simp only; omega
  have ho1 := leftStage_orthonormal tol htol m n _ Q V0 M V h1 hex1 hQ hleftval horth
  have hval : ∀ k, ∀ p ∈ givensLayer m n k, p.1 < m ∧ 1 ≤ p.2 ∧ p.2 < n := by
    intro k p hp
    obtain ⟨i, j⟩ := p
    -- `givensLayer` lists only valid positions for every k (by the three cases of its definition)
    by_cases hk : k < n - 1
    · rw [mem_givensLayer m n k i j hm hk] at hp; simp only; omega
    · exfalso
      unfold givensLayer at hp
      simp only at hp
      split at hp
      · rw [mem_zipUp] at hp; obtain ⟨t, ht, _, _⟩ := hp; omega
      · split at hp
        · rw [mem_zipUp] at hp; obtain ⟨t, ht, _, _⟩ := hp; omega
        · split at hp
          · rw [mem_zipUp] at hp; obtain ⟨t, ht, _, _⟩ := hp; omega
          · rw [mem_zipUp] at hp; obtain ⟨t, ht, _, _⟩ := hp; omega
  obtain ⟨_, hg⟩ := colSweep_gram tol htol ai m n (givensLayer m n) hval _ M ls M' h2 hex2 hR
  have ho' := ho1.of_sameGram hg
  have hd := diagonal_of_triangular_orthonormal M' m n (by omega) hup ho'
  refine ⟨?_, fun j hj => (hd j hj).2⟩
  intro i j hi hj hij
  by_cases hjm : j < m
  · exact (hd j hjm).1 i hi hij
  · exact hup i j hi (by omega) hj

/-- `decompGivens` (what the driver executes for `givens_decomposition`) is the composition of the two stages
and returns the diagonal of the final matrix -/
theorem givens_decomposition_is_two_stages (tol : Rat) (Q : Mat) (n : Nat) (ai : Bool) (out : GivensOut)
    (hm : Q.length < n) (h : decompGivens tol Q n ai = .ok out) :
    ∃ M V ls M', leftStage tol (givensLeft Q.length n) Q (Mat.identity Q.length) = .ok (M, V) ∧
      colSweep tol (givensLayer Q.length n) ai (List.range (givensDepth n)) M = .ok (ls, M') ∧
      out.layers = ls ∧ out.left = V ∧ out.diag = diagOf M' Q.length 0 := by
  unfold decompGivens at h
  simp only at h
  rw [if_neg (by omega)] at h
  cases hL : leftStage tol (givensLeft Q.length n) Q (Mat.identity Q.length) with
  | error e => simp [hL, bind, Except.bind] at h
  | ok t =>
    obtain ⟨M, V⟩ := t
    simp only [hL, bind, Except.bind] at h
    rw [if_neg (by omega)] at h
    cases hS : colSweep tol (givensLayer Q.length n) ai (List.range (givensDepth n)) M with
    | error e => simp [hS] at h
    | ok t2 =>
      obtain ⟨ls, M'⟩ := t2
      simp only [hS] at h
      injection h with h; subst h
      exact ⟨M, V, ls, M', rfl, hS, rfl, rfl, rfl⟩

-- non-vacuity: a 2 × 3 isometry whose left stage performs one row rotation
example : (leftStage (1/100000000) (givensLeft 2 3) [[0, ⟨3/5, 0⟩, ⟨4/5, 0⟩], [0, ⟨-4/5, 0⟩, ⟨3/5, 0⟩]]
    (Mat.identity 2)).toOption.map (fun r => r.1) = some [[0, 1, 0], [0, 0, 1]] := by decide +kernel
example : StepExactL (1/100000000) [[0, ⟨3/5, 0⟩, ⟨4/5, 0⟩], [0, ⟨-4/5, 0⟩, ⟨3/5, 0⟩]] 0 2 :=
  stepExactLB_sound (by decide +kernel)

-- non-vacuity: a 1 × 2 isometry (3/5, 4/5): the sweep returns (1, 0); the corner is empty
example : (colSweep (1/100000000) (givensLayer 1 2) false (List.range (givensDepth 2))
    [[⟨3/5, 0⟩, ⟨4/5, 0⟩]]).toOption.map (fun r => r.2) = some [[1, 0]] ∧ givensLeft 1 2 = [] := by
  decide +kernel

/-- **`givens_decomposition_square` diagonalises every unitary (exact regime).**
Let `Q` be `n × n` with orthonormal rows.  Whenever the Model's sweep returns and the run is in the exact regime,
the final matrix `M' = Q G₁† ⋯ G_k†` (each step is `givens_rotate(.., 'col')` with the matrix whose parameters
`(θ, φ)` are recorded — `givens_matrix_elements_sound` shows they reproduce it) is **diagonal with unit-modulus
diagonal**: `M'[i,j] = 0` for `i ≠ j`, `|M'[j,j]|² = 1`, and all inner products of rows are those of `Q`.
The returned `diagonal` is `diag M'`, so `Q = D U` with `U = G_k ⋯ G₁` — the statement of the docstring.
(What is not formalised is only the bookkeeping that composing the recorded rotations gives the matrix product `U`;
the reconstruction oracle checks that product numerically on the real code.) -/
theorem square_decomposition_diagonalises (tol : Rat) (htol : 0 < tol) (ai : Bool) (n : Nat) (Q : Mat)
    (ls : List (List Rot)) (M' : Mat) (hQ : Rect Q n n) (horth : RowsOrthonormal Q n n)
    (h : colSweep tol (squareLayer n) ai (List.range (squareDepth n)) Q = .ok (ls, M'))
    (hex : SweepExact tol ai (squareLayer n) (List.range (squareDepth n)) Q) :
    (∀ i j, i < n → j < n → i ≠ j → M'.get i j = 0) ∧
    (∀ j, j < n → (M'.get j j).re * (M'.get j j).re + (M'.get j j).im * (M'.get j j).im = 1) ∧
    RowsOrthonormal M' n n := by
  obtain ⟨_, hup⟩ := square_sweep_annihilates_upper_triangle tol htol ai n Q ls M' hQ h hex
  have hval : ∀ k, ∀ p ∈ squareLayer n k, p.1 < n ∧ 1 ≤ p.2 ∧ p.2 < n := by
    intro k p hp
    obtain ⟨i, j⟩ := p
    rw [mem_squareLayer] at hp
    simp only; omega
  obtain ⟨_, hg⟩ := colSweep_gram tol htol ai n n (squareLayer n) hval _ Q ls M' h hex hQ
  have ho' := horth.of_sameGram hg
  have hd := diagonal_of_triangular_orthonormal M' n n (Nat.le_refl n) (fun i j _ hij hj => hup i j hij hj) ho'
  exact ⟨fun i j hi hj hij => (hd j hj).1 i hi hij, fun j hj => (hd j hj).2, ho'⟩

-- non-vacuity: the 3-4-5 rotation has orthonormal rows
example : RowsOrthonormal [[⟨3/5, 0⟩, ⟨4/5, 0⟩], [⟨-4/5, 0⟩, ⟨3/5, 0⟩]] 2 2 := by
  intro i i' hi hi'
  have h1 : i = 0 ∨ i = 1 := by omega
  have h2 : i' = 0 ∨ i' = 1 := by omega
  rcases h1 with rfl | rfl <;> rcases h2 with rfl | rfl <;> decide +kernel

-- non-vacuity: on the 3-4-5 rotation the sweep returns and the exact-regime conditions of its only step hold
example : (colSweep (1/100000000) (squareLayer 2) false (List.range (squareDepth 2))
    [[⟨3/5, 0⟩, ⟨4/5, 0⟩], [⟨-4/5, 0⟩, ⟨3/5, 0⟩]]).toOption.map (fun r => r.2) =
    some [[1, 0], [0, 1]] := by decide +kernel
example : Rect [[⟨3/5, 0⟩, ⟨4/5, 0⟩], [⟨-4/5, 0⟩, ⟨3/5, 0⟩]] 2 2 := by
  refine ⟨rfl, ?_⟩; intro row h; simp at h; rcases h with rfl | rfl <;> rfl

-- non-vacuity: the exact-regime conditions of that step hold (3/5, 4/5 are far above the tolerance, exactly real)
example : StepExact (1/100000000) [[⟨3/5, 0⟩, ⟨4/5, 0⟩], [⟨-4/5, 0⟩, ⟨3/5, 0⟩]] 0 1 :=
  stepExactB_sound (by decide +kernel)

-- non-vacuity: the first step on a 3-4-5 rotation
example : (givensElems (1/100000000) ((Mat.get [[⟨3/5, 0⟩, ⟨4/5, 0⟩], [⟨-4/5, 0⟩, ⟨3/5, 0⟩]] 0 0).conj)
    ((Mat.get [[⟨3/5, 0⟩, ⟨4/5, 0⟩], [⟨-4/5, 0⟩, ⟨3/5, 0⟩]] 0 1).conj) true).toOption.map
    (fun G => (rotateCols [[⟨3/5, 0⟩, ⟨4/5, 0⟩], [⟨-4/5, 0⟩, ⟨3/5, 0⟩]] G 0 1).get 0 1) = some 0 := by
  decide +kernel

/-! ## The decomposition multiplies out -/

open Finset in
/-- **`Q · U† = D` as a matrix product** (`givens_decomposition_square`, exact regime).  Let `ops` be the RECORDED rotations
of all returned layers, each read as the docstring matrix `[[cos θ, -e^{iφ} sin θ], [sin θ, e^{iφ} cos θ]]` acting on
columns `(i, j)` (`Rot.toOp`), and `Ud` the matrix obtained by applying them, in order, to the identity (that is
`G₁† ⋯ G_k† = U†`).  Then for every unitary `Q`: `Σ_y Q[i,y] · Ud[y,x] = d_i δ_ix` with `|d_i| = 1` and `d` the returned
diagonal — the statement `Q = D U` of the docstring, as a product of the elementary matrices rebuilt from the returned
parameters. -/
theorem square_reconstruct_product (tol : Rat) (htol : 0 < tol) (ai : Bool) (n : Nat) (Q : Mat)
    (ls : List (List Rot)) (M' : Mat) (hQ : Rect Q n n) (horth : RowsOrthonormal Q n n)
    (h : colSweep tol (squareLayer n) ai (List.range (squareDepth n)) Q = .ok (ls, M'))
    (hex : SweepExact tol ai (squareLayer n) (List.range (squareDepth n)) Q) :
    ∀ i x, i < n → x < n →
      (∑ y ∈ range n, Q.get i y * (applyCols (ls.flatten.map Rot.toOp) (Mat.identity n)).get y x) =
        (if i = x then M'.get i i else 0) ∧
      ((M'.get i i).re * (M'.get i i).re + (M'.get i i).im * (M'.get i i).im = 1) := by
  intro i x hi hx
  obtain ⟨hz, hn, _⟩ := square_decomposition_diagonalises tol htol ai n Q ls M' hQ horth h hex
  have happ := colSweep_applied tol htol ai (squareLayer n) _ Q ls M' h hex
  -- every recorded rotation acts on a valid adjacent pair
  obtain ⟨_, hall⟩ := colSweep_layers tol (squareLayer n) ai _ Q ls M' h
  have hval : ∀ op ∈ ls.flatten.map Rot.toOp, op.2.1 < n ∧ op.2.2 < n ∧ op.2.1 ≠ op.2.2 := by
    intro op hop
    obtain ⟨r, hr, rfl⟩ := List.mem_map.mp hop
    obtain ⟨l, hl, hrl⟩ := List.mem_flatten.mp hr
    obtain ⟨_, k, _, hs⟩ := hall l hl
    obtain ⟨hmem, _⟩ := sublayer_structure (squareLayer_pairwise n k) hs
    obtain ⟨⟨i0, j0⟩, hp, h1, h2⟩ := hmem r hrl
    rw [mem_squareLayer] at hp
    show (Rot.toOp r).2.1 < n ∧ (Rot.toOp r).2.2 < n ∧ (Rot.toOp r).2.1 ≠ (Rot.toOp r).2.2
    simp only [Rot.toOp]
    have h1' : r.i = j0 - 1 := h1
    have h2' : r.j = j0 := h2
    omega
  have hmul := applyCols_mul (ls.flatten.map Rot.toOp) n Q hQ hval i x hi hx
  rw [← happ] at hmul
  refine ⟨?_, hn i hi⟩
  rw [← hmul]
  by_cases e : i = x
  · subst e; simp
  · simp only [e, if_false]; exact hz i x hi hx e

open Finset in
/-- **`V Q U† = (D | 0)` as a matrix product** (`givens_decomposition`, `m < n`, exact regime).  `V` is the matrix the
function returns as `left_unitary` (the Model applies every row rotation to it, starting from the identity), `Ud = U†` is
obtained by applying the RECORDED column rotations (rebuilt from their `(θ, φ)`) to the identity.  For every `m × n`
isometry `Q`:  `Σ_y (Σ_w V[i,w] Q[w,y]) · Ud[y,x] = d_i δ_ix`, `|d_i| = 1`, `d` the returned diagonal. -/
theorem givens_reconstruct_product (tol : Rat) (htol : 0 < tol) (ai : Bool) (m n : Nat) (hm : m < n)
    (Q M V : Mat) (ls : List (List Rot)) (M' : Mat) (hQ : Rect Q m n) (horth : RowsOrthonormal Q m n)
    (h1 : leftStage tol (givensLeft m n) Q (Mat.identity m) = .ok (M, V)) (hex1 : LeftExact tol (givensLeft m n) Q)
    (h2 : colSweep tol (givensLayer m n) ai (List.range (givensDepth n)) M = .ok (ls, M'))
    (hex2 : SweepExact tol ai (givensLayer m n) (List.range (givensDepth n)) M) :
    ∀ i x, i < m → x < n →
      (∑ y ∈ range n, (∑ w ∈ range m, V.get i w * Q.get w y) *
          (applyCols (ls.flatten.map Rot.toOp) (Mat.identity n)).get y x) = (if i = x then M'.get i i else 0) ∧
      ((M'.get i i).re * (M'.get i i).re + (M'.get i i).im * (M'.get i i).im = 1) := by
  intro i x hi hx
  obtain ⟨hz, hn⟩ := givens_decomposition_diagonalises tol htol ai m n hm Q (Mat.identity m) M V ls M' hQ horth h1 hex1 h2 hex2
  have hleftval : ∀ p ∈ givensLeft m n, p.1 + 1 < m := by
    intro p hp
    obtain ⟨l, k⟩ := p
    have := (mem_givensLeft m n l k (by omega)).1 hp
    simp only; omega
  obtain ⟨hprod, _⟩ := leftStage_prod tol m n Q _ Q (Mat.identity m) M V h1 hQ (identity_rect m) hleftval (identity_prod Q m n)
  obtain ⟨hRM, _⟩ := leftStage_zeroes_corner tol htol m n (by omega) Q (Mat.identity m) M V h1 hex1 hQ
  have happ := colSweep_applied tol htol ai (givensLayer m n) _ M ls M' h2 hex2
  obtain ⟨_, hall⟩ := colSweep_layers tol (givensLayer m n) ai _ M ls M' h2
  have hval : ∀ op ∈ ls.flatten.map Rot.toOp, op.2.1 < n ∧ op.2.2 < n ∧ op.2.1 ≠ op.2.2 := by
    intro op hop
    obtain ⟨r, hr, rfl⟩ := List.mem_map.mp hop
    obtain ⟨l, hl, hrl⟩ := List.mem_flatten.mp hr
    obtain ⟨_, k, hk, hs⟩ := hall l hl
    obtain ⟨hmem, _⟩ := sublayer_structure (givensLayer_pairwise m n k) hs
    obtain ⟨⟨i0, j0⟩, hp, h1', h2'⟩ := hmem r hrl
    rw [mem_givensLayer m n k i0 j0 hm (by simpa [givensDepth] using List.mem_range.mp hk)] at hp
    show (Rot.toOp r).2.1 < n ∧ (Rot.toOp r).2.2 < n ∧ (Rot.toOp r).2.1 ≠ (Rot.toOp r).2.2
    simp only [Rot.toOp]
    have e1 : r.i = j0 - 1 := h1'
    have e2 : r.j = j0 := h2'
    omega
  have hmul := applyCols_mul (ls.flatten.map Rot.toOp) m M hRM hval i x hi hx
  rw [← happ] at hmul
  refine ⟨?_, hn i hi⟩
  rw [sum_congr rfl (fun y hy => by rw [← hprod i y hi (mem_range.mp hy)]), ← hmul]
  by_cases e : i = x
  · subst e; simp
  · simp only [e, if_false]; exact hz i x hi hx e

/-- **The returned `left_unitary` is unitary** (rows orthonormal), for every `m × n` input in the exact regime: it is the
identity transformed by the unitary row rotations of the left stage. -/
theorem givens_left_unitary_is_unitary (tol : Rat) (htol : 0 < tol) (m n : Nat) (hmn : m ≤ n) (Q M V : Mat) (hQ : Rect Q m n)
    (h1 : leftStage tol (givensLeft m n) Q (Mat.identity m) = .ok (M, V)) (hex1 : LeftExact tol (givensLeft m n) Q) :
    RowsOrthonormal V m m := by
  have hleftval : ∀ p ∈ givensLeft m n, p.1 + 1 < m := by
    intro p hp
    obtain ⟨l, k⟩ := p
    have := (mem_givensLeft m n l k hmn).1 hp
    simp only; omega
  exact leftStage_V_orthonormal tol htol m n _ Q (Mat.identity m) M V h1 hex1 hQ (identity_rect m) hleftval
    (identity_orthonormal m)

open Finset in
/-- **`givens_decomposition` for `m = n`** (only the left-unitary stage runs; no rotations are returned): for every `n × n`
unitary `Q` in the exact regime, `V Q = D` as a matrix product with `V` the returned `left_unitary`, `|D_ii| = 1`, and `D`
the returned diagonal (`diag M`). -/
theorem givens_square_case_product (tol : Rat) (htol : 0 < tol) (n : Nat) (Q M V : Mat) (hQ : Rect Q n n)
    (horth : RowsOrthonormal Q n n)
    (h1 : leftStage tol (givensLeft n n) Q (Mat.identity n) = .ok (M, V)) (hex1 : LeftExact tol (givensLeft n n) Q) :
    ∀ i x, i < n → x < n →
      (∑ w ∈ range n, V.get i w * Q.get w x) = (if i = x then M.get i i else 0) ∧
      ((M.get i i).re * (M.get i i).re + (M.get i i).im * (M.get i i).im = 1) := by
  intro i x hi hx
  have hleftval : ∀ p ∈ givensLeft n n, p.1 + 1 < n := by
    intro p hp
    obtain ⟨l, k⟩ := p
    have := (mem_givensLeft n n l k (Nat.le_refl n)).1 hp
    simp only; omega
  obtain ⟨hR, hc⟩ := leftStage_zeroes_corner tol htol n n (Nat.le_refl n) Q (Mat.identity n) M V h1 hex1 hQ
  have ho := leftStage_orthonormal tol htol n n _ Q (Mat.identity n) M V h1 hex1 hQ hleftval horth
  have hup : ∀ i j, i < n → i < j → j < n → M.get i j = 0 := by
    intro i j _ hij hj
    exact hc i j ((mem_givensLeft n n i j (Nat.le_refl n)).2 ⟨hj, by omega⟩)
  have hd := diagonal_of_triangular_orthonormal M n n (Nat.le_refl n) hup ho
  obtain ⟨hprod, _⟩ := leftStage_prod tol n n Q _ Q (Mat.identity n) M V h1 hQ (identity_rect n) hleftval (identity_prod Q n n)
  refine ⟨?_, (hd i hi).2⟩
  rw [← hprod i x hi hx]
  by_cases e : i = x
  · subst e; simp
  · simp only [e, if_false]; exact (hd x hx).1 i hi e

/-! ## The reconstruction theorems with executable hypotheses

`squareHypothesesB`, `givensHypothesesB` and `orthonormalB` are Boolean functions of the input which the driver
evaluates for every structured input of the correspondence run (op `c11.hypotheses`); whenever they answer `true`
the theorems below apply to that very input, unconditionally. -/

/-- if the probes accept `Q` then `decompSquare` (what the driver runs) returns a diagonal of unit modulus and the
final matrix is that diagonal -/
theorem square_decomposition_checked (tol : Rat) (htol : 0 < tol) (Q : Mat) (ai : Bool)
    (hB : squareHypothesesB tol Q ai = true) (hO : orthonormalB Q Q.length Q.length = true)
    (ls : List (List Rot)) (d : List GQ) (h : decompSquare tol Q ai = .ok (ls, d)) :
    ∃ M', colSweep tol (squareLayer Q.length) ai (List.range (squareDepth Q.length)) Q = .ok (ls, M') ∧
      d = diagOf M' Q.length 0 ∧
      (∀ i j, i < Q.length → j < Q.length → i ≠ j → M'.get i j = 0) ∧
      (∀ j, j < Q.length → (M'.get j j).re * (M'.get j j).re + (M'.get j j).im * (M'.get j j).im = 1) := by
  unfold squareHypothesesB at hB
  simp only [Bool.and_eq_true] at hB
  obtain ⟨hrect, hex⟩ := hB
  unfold decompSquare at h
  cases hS : colSweep tol (squareLayer Q.length) ai (List.range (squareDepth Q.length)) Q with
  | error e => simp [hS, bind, Except.bind] at h
  | ok t =>
    obtain ⟨ls', M'⟩ := t
    simp only [hS, bind, Except.bind] at h
    injection h with h; injection h with h1 h2; subst h1; subst h2
    obtain ⟨hz, hn, _⟩ := square_decomposition_diagonalises tol htol ai Q.length Q ls' M' (rect_of_all Q _ hrect)
      (orthonormalB_sound Q _ _ hO) hS (sweepExactB_sound tol ai _ _ Q hex)
    exact ⟨M', rfl, rfl, hz, hn⟩

/-- the same for `decompGivens`, `m < n` -/
theorem givens_decomposition_checked (tol : Rat) (htol : 0 < tol) (Q : Mat) (n : Nat) (ai : Bool)
    (hB : givensHypothesesB tol Q n ai = true) (hO : orthonormalB Q Q.length n = true)
    (out : GivensOut) (h : decompGivens tol Q n ai = .ok out) :
    ∃ M', out.diag = diagOf M' Q.length 0 ∧
      (∀ i j, i < Q.length → j < n → i ≠ j → M'.get i j = 0) ∧
      (∀ j, j < Q.length → (M'.get j j).re * (M'.get j j).re + (M'.get j j).im * (M'.get j j).im = 1) := by
  unfold givensHypothesesB at hB
  simp only [Bool.and_eq_true, decide_eq_true_eq] at hB
  obtain ⟨⟨⟨hm, hrect⟩, hexL⟩, hrest⟩ := hB
  obtain ⟨M, V, ls, M', hL, hS, _, _, hdiag⟩ := givens_decomposition_is_two_stages tol Q n ai out hm h
  rw [hL] at hrest
  simp only at hrest
  obtain ⟨hz, hn⟩ := givens_decomposition_diagonalises tol htol ai Q.length n hm Q _ M V ls M'
    (rect_of_all Q _ hrect) (orthonormalB_sound Q _ _ hO) hL (leftExactB_sound tol _ Q hexL) hS
    (sweepExactB_sound tol ai _ _ M hrest)
  exact ⟨M', hdiag, hz, hn⟩

-- non-vacuity: both probes accept the 3-4-5 rotation and a 2 × 3 isometry
example : squareHypothesesB (1/100000000) [[⟨3/5, 0⟩, ⟨4/5, 0⟩], [⟨-4/5, 0⟩, ⟨3/5, 0⟩]] false = true ∧
    orthonormalB [[⟨3/5, 0⟩, ⟨4/5, 0⟩], [⟨-4/5, 0⟩, ⟨3/5, 0⟩]] 2 2 = true := by decide +kernel
example : givensHypothesesB (1/100000000) [[0, ⟨3/5, 0⟩, ⟨4/5, 0⟩], [0, ⟨-4/5, 0⟩, ⟨3/5, 0⟩]] 3 false = true ∧
    orthonormalB [[0, ⟨3/5, 0⟩, ⟨4/5, 0⟩], [0, ⟨-4/5, 0⟩, ⟨3/5, 0⟩]] 2 3 = true := by decide +kernel

/-! ## The pivot hypothesis of the Gaussian decomposition

`gaussAllPivots out N` (decidable, evaluated by the driver on every Gaussian input and — from the returned `'pht'` count —
on the implementation's own output) says that all `N` particle-hole pivots were non-zero.  The harness treats it as the
boundary of the known finding: a reconstruction failure on an input where all pivots were non-zero is a VIOLATION even if the
left block is singular.  `gaussian_reconstruct` under this hypothesis is NOT proved (named gap: the right block after the
sweep is diagonal); the two kernel-checked instances below show the predicate separating a working input from F11. -/

theorem test_pivot_hypothesis_fails_on_F11 :
    (decompGauss (1/100000000) [[0, 0, 0, 1], [0, 0, 1, 0]] 4).toOption.map (fun o => gaussAllPivots o 2) = some false := by
  decide +kernel

theorem test_pivot_hypothesis_holds_on_bcs :
    (decompGauss (1/100000000) [[⟨3/5, 0⟩, 0, 0, ⟨4/5, 0⟩], [0, ⟨3/5, 0⟩, ⟨-4/5, 0⟩, 0]] 4).toOption.map
      (fun o => (gaussAllPivots o 2, o.diag.map fun d => d.re * d.re + d.im * d.im)) = some (true, [1, 1]) := by
  decide +kernel

/-! ## Known finding F11 -/

/-- The full statement `gaussian_reconstruct` ("for every admissible `N × 2N` matrix the returned diagonal
has unit modulus and `V W U† = (0 | D)`") is FALSE for the code as it is: on the admissible
`W = [[0,0,0,1],[0,0,1,0]]` (`b₀ = a₁`, `b₁ = a₀`; left block singular) the Model — which the
correspondence run shows to agree with the implementation on this input — returns the diagonal `[0, 0]`
and no operation at all. -/
theorem gaussian_reconstruct_counterexample :
    gaussAdmissible (1/100000000) [[0, 0, 0, 1], [0, 0, 1, 0]] 2 = true ∧
    (decompGauss (1/100000000) [[0, 0, 0, 1], [0, 0, 1, 0]] 4).toOption.map
      (fun o => (o.layers.length, o.diag)) = some (0, [0, 0]) := by decide +kernel

end OFV.C11
