/-
C08 — Spec: what a tensor representation *denotes*.  A tensor `T` of type `key`
(`key_k` = 1 creation / 0 annihilation) over `n` modes denotes the fermion operator
`Σ_index T[index] · Π_k a^{key_k}_{index_k}`; a PolynomialTensor denotes the sum over its keys;
QuadraticHamiltonian and DiagonalCoulombHamiltonian denote their docstring formulas.
The denoted operator is returned as a list of (term, coefficient) (duplicates allowed, zero
entries kept) whose meaning is given by the shared `Spec.applyF` / `Spec.melF`.  Import-free.
-/
import OFV.Spec.Basic

namespace OFV
namespace Spec
namespace C08

/-- a numpy array as a nested list -/
inductive Tensor
  | s (c : GQ)
  | v (l : List Tensor)
deriving Repr, Inhabited

abbrev FOp := List (List (Nat × Nat) × GQ)

/-- all `(index, value)` entries of an array of order `k`, row-major -/
def entries : Nat → Tensor → List (List Nat × GQ)
  | 0, .s c => [([], c)]
  | k + 1, .v l => l.zipIdx.flatMap fun (t, i) => (entries k t).map fun (idx, c) => (i :: idx, c)
  | _, _ => []

/-- `Σ_index T[index] · Π_k (index_k, key_k)` -/
def denoteTensor (key : List Nat) (T : Tensor) : FOp :=
  (entries key.length T).map fun (idx, c) => (idx.zip key, c)

/-- a PolynomialTensor denotes the sum over its keys -/
def denotePT (d : List (List Nat × Tensor)) : FOp := d.flatMap fun (k, t) => denoteTensor k t

def entry2 (T : Tensor) (p q : Nat) : GQ :=
  match T with
  | .v l => match l[p]? with
    | some (.v r) => match r[q]? with
      | some (.s c) => c
      | _ => 0
    | _ => 0
  | _ => 0

def pairs (n : Nat) : List (Nat × Nat) :=
  (List.range n).flatMap fun p => (List.range n).map fun q => (p, q)

/-- QuadraticHamiltonian docstring:
`Σ (M_pq − μ δ_pq) a†_p a_q + ½ Σ (Δ_pq a†_p a†_q + h.c.) + constant` -/
def denoteQH (n : Nat) (M Δ : Tensor) (mu c : GQ) : FOp :=
  [([], c)] ++
  (pairs n).map (fun (p, q) => ([(p, 1), (q, 0)], entry2 M p q - (if p = q then mu else 0))) ++
  (pairs n).flatMap (fun (p, q) =>
    [([(p, 1), (q, 1)], ⟨1/2, 0⟩ * entry2 Δ p q),
     ([(q, 0), (p, 0)], ⟨1/2, 0⟩ * GQ.conj (entry2 Δ p q))])

/-- DiagonalCoulombHamiltonian docstring:
`Σ T_pq a†_p a_q + Σ V_pq a†_p a_p a†_q a_q + constant` -/
def denoteDCH (n : Nat) (T V : Tensor) (c : GQ) : FOp :=
  [([], c)] ++
  (pairs n).map (fun (p, q) => ([(p, 1), (q, 0)], entry2 T p q)) ++
  (pairs n).map (fun (p, q) => ([(p, 1), (p, 0), (q, 1), (q, 0)], entry2 V p q))

/-- dense matrix `⟨t|A|s⟩`, rows `t`, columns `s`, masks `< 2^n` -/
def dense (n : Nat) (A : FOp) : List (List GQ) :=
  let cols := (List.range (2 ^ n)).map fun s => applyF A s
  (List.range (2 ^ n)).map fun t => cols.map fun col => SV.coeff col t

/-- the substitution `a†_a ↦ Σ_P conj(R[a,P]) a†_P`, `a_a ↦ Σ_P R[a,P] a_P` of one ladder
operator, as an operator (the meaning of "rotating the basis by R") -/
def rotatedLadder (R : List (List GQ)) (a act : Nat) : FOp :=
  match R[a]? with
  | none => []
  | some row => row.zipIdx.map fun (x, P) => ([(P, act)], if act ≠ 0 then GQ.conj x else x)

end C08
end Spec
end OFV
