/-
C14 — reference semantics specific to the property (executable, import-free).

* `swapOk`: the documented contract of a swap network, as a predicate on an observed
  callback log and final order (evaluated by the oracle on the *implementation's* log, and
  proved of the Model's log in `Properties/C14.lean`).
* Jordan–Wigner ladder matrices in cirq's big-endian convention, built from `Spec.actF`
  (mode `j` = bit `j` of the mask = qubit `j` = the `j`-th most significant bit of the
  dense index), exported sparsely to the harness for the conjugation oracle.
-/
import OFV.Spec.Basic

namespace OFV
namespace Spec
namespace C14

/-! ### swap network contract -/

/-- a callback invocation `(p, q, a, b)`: modes `p q` handed over on qubit positions `a b` -/
abbrev Call := Nat × Nat × Nat × Nat

/-- the call concerns the unordered pair `{p, q}` -/
def isPair (p q : Nat) (e : Call) : Bool :=
  (e.1 == p && e.2.1 == q) || (e.1 == q && e.2.1 == p)

/-- the qubits handed to the callback are adjacent, in ascending order, inside the register -/
def adjacent (n : Nat) (e : Call) : Bool := e.2.2.2 == e.2.2.1 + 1 && e.2.2.2 < n

/-- the call concerns two different modes of the register -/
def validPair (n : Nat) (e : Call) : Bool := e.1 < n && e.2.1 < n && e.1 != e.2.1

/-- "A swap network applies its callback to every unordered pair of modes exactly once, on
adjacent qubits, and leaves the order reversed." -/
def swapOk (n : Nat) (order : List Nat) (log : List Call) : Bool :=
  order == (List.range n).reverse
  && log.all (adjacent n)
  && log.all (validPair n)
  && (List.range n).all fun q => (List.range q).all fun p => (log.filter (isPair p q)).length == 1

/-- which part fails (for the oracle's report): 0 = ok, 1 order, 2 adjacency, 3 validity, 4 coverage -/
def swapDiag (n : Nat) (order : List Nat) (log : List Call) : Nat :=
  if !(order == (List.range n).reverse) then 1
  else if !(log.all (adjacent n)) then 2
  else if !(log.all (validPair n)) then 3
  else if !((List.range n).all fun q => (List.range q).all fun p =>
      (log.filter (isPair p q)).length == 1) then 4
  else 0

/-! ### dense Jordan–Wigner matrices, big-endian -/

/-- reverse the lowest `n` bits: mask (mode `j` = bit `j`) ↔ cirq's big-endian dense index -/
def revBits (n x : Nat) : Nat :=
  (List.range n).foldl (fun acc j => if x.testBit j then acc + 2 ^ (n - 1 - j) else acc) 0

/-- non-zero entries `(row, col, sign)` of the `2^n × 2^n` matrix of `a_p` (`a = 0`) or
`a_p†` (`a = 1`) -/
def ladderSparse (n p a : Nat) : List (Nat × Nat × Int) :=
  (List.range (2 ^ n)).filterMap fun s =>
    match actF p a s with
    | none => none
    | some (k, s') => some (revBits n s', revBits n s, if k % 2 == 0 then 1 else -1)

/-- dense integer matrix (row-major) of a ladder operator -/
def ladderDense (n p a : Nat) : List (List Int) :=
  let es := ladderSparse n p a
  (List.range (2 ^ n)).map fun r => (List.range (2 ^ n)).map fun c =>
    match es.find? (fun e => e.1 == r && e.2.1 == c) with
    | some e => e.2.2
    | none => 0

end C14
end Spec
end OFV
