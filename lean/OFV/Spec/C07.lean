/-
C07 — reference semantics used to *state* the C07 theorems and as oracle:

* matrix elements of single fermion / Pauli terms on basis states (from `Spec.Basic`),
* what "the (double) commutator of single terms is zero" means,
* the adjoint: `⟨t| B |s⟩ = conj ⟨s| A |t⟩` for all basis states of an `n`-mode register.

Import-free.
-/
import OFV.Spec.Expr

namespace OFV
namespace Spec
namespace C07

abbrev Term := List (Nat × Nat)

def sgnI (k : Nat) : Int := if k % 2 = 0 then 1 else -1

/-- `⟨u| t |s⟩` for a product `t` of fermionic ladder operators (coefficient 1): `0, ±1` -/
def ampF (t : Term) (s u : Nat) : Int :=
  match actFTerm t s with
  | none => 0
  | some (k, s') => if s' = u then sgnI k else 0

/-- `[a, b] = 0` as linear maps on Fock space (single terms, coefficient 1) -/
def CommZeroF (a b : Term) : Prop := ∀ s u, ampF (a ++ b) s u - ampF (b ++ a) s u = 0

/-- `⟦a⟧⟦b⟧|s⟩ = ⟦b⟧⟦a⟧|s⟩` for every Fock basis state (`none` = 0, `some (k, s')` = `(-1)^k |s'⟩`,
`k` reduced mod 2) -/
def CommutesF (a b : Term) : Prop := ∀ s, actFTerm (a ++ b) s = actFTerm (b ++ a) s

/-- matrix element of `[a, [b, c]] = abc - acb - bca + cba` -/
def dcAmpF (a b c : Term) (s u : Nat) : Int :=
  ampF (a ++ b ++ c) s u - ampF (a ++ c ++ b) s u - ampF (b ++ c ++ a) s u + ampF (c ++ b ++ a) s u

def DoubleCommZeroF (a b c : Term) : Prop := ∀ s u, dcAmpF a b c s u = 0

/-- `⟨u| t |s⟩` for a Pauli string (coefficient 1) -/
def ampP (t : Term) (s u : Nat) : GQ :=
  let r := actPTerm t s
  if r.2 = u then GQ.ipow r.1 else 0

def CommZeroP (a b : Term) : Prop := ∀ s u, ampP (a ++ b) s u - ampP (b ++ a) s u = 0

/-- `⟦a⟧⟦b⟧|s⟩ = ⟦b⟧⟦a⟧|s⟩` for every basis state, as `i^k |s'⟩` with `k` reduced mod 4 -/
def CommutesP (a b : Term) : Prop := ∀ s, actPTerm (a ++ b) s = actPTerm (b ++ a) s

def dcAmpP (a b c : Term) (s u : Nat) : GQ :=
  ampP (a ++ b ++ c) s u - ampP (a ++ c ++ b) s u - ampP (b ++ c ++ a) s u + ampP (c ++ b ++ a) s u

def DoubleCommZeroP (a b c : Term) : Prop := ∀ s u, dcAmpP a b c s u = 0

/-! ### executable adjoint oracle (bit algebras) -/

/-- first `(s, t, ⟨t|B|s⟩, conj ⟨s|A|t⟩)` that differ, over all `s, t < 2^n` -/
def adjointDiff (alg : Alg) (n : Nat) (A B : List (Term × GQ)) : Option (Nat × Nat × GQ × GQ) :=
  let cols := (List.range (2 ^ n)).map fun s => (applyOp alg A [s], applyOp alg B [s])
  (List.range (2 ^ n)).findSome? fun s =>
    (List.range (2 ^ n)).findSome? fun t =>
      let x := GV.coeff (cols.getD s ([], [])).2 [t]
      let y := GQ.conj (GV.coeff (cols.getD t ([], [])).1 [s])
      if x == y then none else some (s, t, x, y)

/-- a grouped term of the dual-basis Hamiltonian as `low_depth_trotter_error` passes it to
`trivially_double_commutes_dual_basis_using_term_info`:
* a hopping group `t (i^ j + j^ i)` on the modes `{i, j}` (`hop = true`),
* a number group `w i^ j^ i j + c_i i^ i + c_j j^ j` on the modes `{i, j}` (`hop = false`, `one = false`),
* an external-potential term `c_i i^ i` on the single mode `{i}` (`hop = false`, `one = true`; the layer
  added by `external_potential_at_end`). -/
structure DualGroup where
  hop : Bool
  one : Bool
  i : Nat
  j : Nat
  t : GQ
  w : GQ
  ci : GQ
  cj : GQ

/-- a single-mode group -/
def DualGroup.single (g : DualGroup) : Bool := !g.hop && g.one

/-- the index set handed to the function (a list without repetition) -/
def DualGroup.idx (g : DualGroup) : List Nat := if g.single then [g.i] else [g.i, g.j]

/-- the two modes of a two-mode group are different -/
def DualGroup.WF (g : DualGroup) : Prop := g.single = false → g.i ≠ g.j

/-- the operator of a group, as the term dictionary the library holds -/
def DualGroup.op (g : DualGroup) : List (Term × GQ) :=
  if g.hop then [([(g.i, 1), (g.j, 0)], g.t), ([(g.j, 1), (g.i, 0)], g.t)]
  else if g.one then [([(g.i, 1), (g.i, 0)], g.ci)]
  else [([(g.i, 1), (g.j, 1), (g.i, 0), (g.j, 0)], g.w), ([(g.i, 1), (g.i, 0)], g.ci), ([(g.j, 1), (g.j, 0)], g.cj)]

end C07
end Spec
end OFV
