/-
C03 — what "the terms are in normal order" means (all pairs of positions), per algebra,
for terms as the classes store them (Boson / Quad terms are index-sorted by the constructor).
"Denotes the same operator" is the shared linear-map semantics (`spec.eq`, OFV.Spec.Expr).
Import-free.
-/
import OFV.Core.GQ

namespace OFV
namespace Spec
namespace C03

abbrev Factor := Nat × Nat

/-- fermions: creators (1) left of annihilators (0); equal types strictly descending index -/
def okF (l r : Factor) : Bool := (r.2 == 0 || l.2 != 0) && (l.2 != r.2 || decide (r.1 < l.1))

/-- bosons: ascending mode index; on a mode creators (1) left of annihilators (0) -/
def okB (l r : Factor) : Bool := decide (l.1 ≤ r.1) && (l.1 != r.1 || decide (r.2 ≤ l.2))

/-- quadratures: ascending mode index; on a mode `q` (0) left of `p` (1) -/
def okQ (l r : Factor) : Bool := decide (l.1 ≤ r.1) && (l.1 != r.1 || decide (l.2 ≤ r.2))

def pairwiseB {α} (p : α → α → Bool) : List α → Bool
  | [] => true
  | x :: r => r.all (p x) && pairwiseB p r

def normalF (t : List Factor) : Bool := pairwiseB okF t
def normalB (t : List Factor) : Bool := pairwiseB okB t
def normalQ (t : List Factor) : Bool := pairwiseB okQ t

end C03
end Spec
end OFV
