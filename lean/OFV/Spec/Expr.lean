/-
Spec-level evaluation of operator expressions as linear maps on formal sums of
basis states: used (i) to state the homomorphism theorems and (ii) by the
failing-input search, which evaluates it on the *implementation's* outputs.
A state is a `List Nat`: `[mask]` for qubit / fermion / Majorana algebras, an
exponent vector for boson / quadrature algebras.  Import-free.
-/
import OFV.Spec.Basic
import OFV.Spec.Boson

namespace OFV
namespace Spec

inductive Alg
  | qubit | fermion | majorana | boson
  | quad (hbar : GQ)
deriving Repr, Inhabited

abbrev St := List Nat
abbrev GV := List (St × GQ)

def GV.addEntry (v : GV) (e : St) (c : GQ) : GV :=
  match v with
  | [] => [(e, c)]
  | (e', c') :: r => if e' = e then (e', c' + c) :: r else (e', c') :: GV.addEntry r e c

def GV.addAll (v w : GV) : GV := w.foldl (fun acc (e, c) => GV.addEntry acc e c) v
def GV.scale (c : GQ) (v : GV) : GV := v.map fun (e, a) => (e, c * a)
def GV.coeff (v : GV) (e : St) : GQ := Dict.getD v e 0
def GV.nonzero (v : GV) : GV := v.filter fun (_, c) => c != 0

/-- equality of formal sums (as functions) -/
def GV.eqv (v w : GV) : Bool :=
  (v.all fun (e, _) => GV.coeff v e == GV.coeff w e) &&
  (w.all fun (e, _) => GV.coeff v e == GV.coeff w e)

def maskOf (s : St) : Nat := s.headD 0

/-- one term (coefficient 1) on one basis state: `none` = annihilated -/
def actTerm (alg : Alg) (t : List (Nat × Nat)) (s : St) : Option (GQ × St) :=
  match alg with
  | .qubit => let r := actPTerm t (maskOf s); some (GQ.ipow r.1, [r.2])
  | .fermion => (actFTerm t (maskOf s)).map fun (k, s') => (GQ.sgn k, [s'])
  | .majorana => let r := actMTerm (t.map (·.1)) (maskOf s); some (GQ.ipow r.1, [r.2])
  | .boson => actTermWith actB t s
  | .quad hbar => actTermWith (actQuad hbar) t s

/-- `A|s⟩` for a dictionary of terms -/
def applyOp (alg : Alg) (A : List (List (Nat × Nat) × GQ)) (s : St) : GV :=
  A.foldl (fun acc (t, c) => match actTerm alg t s with
    | none => acc
    | some (k, s') => GV.addEntry acc s' (c * k)) []

/-- linear extension -/
def applyLin (f : St → GV) (v : GV) : GV :=
  v.foldl (fun acc (s, c) => GV.addAll acc (GV.scale c (f s))) []

inductive Expr
  | leaf (A : List (List (Nat × Nat) × GQ))
  | add (a b : Expr)
  | sub (a b : Expr)
  | mul (a b : Expr)
  | smul (c : GQ) (a : Expr)
  | pow (a : Expr) (k : Nat)
deriving Repr, Inhabited

def Expr.apply (alg : Alg) : Expr → GV → GV
  | .leaf A, v => applyLin (applyOp alg A) v
  | .add a b, v => GV.addAll (a.apply alg v) (b.apply alg v)
  | .sub a b, v => GV.addAll (a.apply alg v) (GV.scale (-1) (b.apply alg v))
  | .mul a b, v => a.apply alg (b.apply alg v)
  | .smul c a, v => GV.scale c (a.apply alg v)
  | .pow _ 0, v => v
  | .pow a (k + 1), v => (Expr.pow a k).apply alg (a.apply alg v)

/-- all exponent vectors / masks to test on: for bit algebras all masks `< 2^n`;
for boson algebras all exponent vectors of length `n` with entries `≤ d`. -/
def testStates (alg : Alg) (n d : Nat) : List St :=
  match alg with
  | .boson | .quad _ =>
    (List.range n).foldl (fun acc _ =>
      acc.flatMap fun e => (List.range (d + 1)).map fun k => e ++ [k]) [[]]
      |>.map trimZeros
  | _ => (List.range (2 ^ n)).map fun m => [m]

/-- first basis state on which two expressions differ -/
def firstDiffExpr (alg : Alg) (n d : Nat) (l r : Expr) : Option (St × GV × GV) :=
  (testStates alg n d).findSome? fun s =>
    let a := l.apply alg [(s, 1)]
    let b := r.apply alg [(s, 1)]
    if GV.eqv a b then none else some (s, GV.nonzero a, GV.nonzero b)

end Spec
end OFV
