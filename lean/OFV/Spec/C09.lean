/-
Spec for C09 (binary codes, BinaryPolynomial), written independently of the Model.

* A polynomial (list of monomials; a monomial is a list of factors, `none` = the
  symbolic constant `'one'`, `some i` = the binary variable `w_i`) denotes a Boolean
  function of assignments `w : Nat → Bool`: the XOR over monomials of the AND over
  the variables of the monomial (arithmetic over GF(2)).
* A code `(A, d)` is *valid on a domain* `D` of occupation vectors if for every
  `v ∈ D`: `d (A v mod 2) = v`.
* `binary_code_transform` is *faithful on* `D` if for every `v ∈ D` the fermionic
  operator maps `|v⟩` into the span of `D` and the qubit operator maps `|enc v⟩` to
  the same linear combination of the encoded images.
Import-free; executable (used as the oracle on the implementation's own outputs).
-/
import OFV.Spec.Expr

namespace OFV
namespace Spec
namespace C09

/-! ### GF(2) evaluation -/

def evalMono (w : Nat → Bool) (t : List (Option Nat)) : Bool :=
  t.all fun f => match f with
    | none => true
    | some i => w i

def evalPoly (w : Nat → Bool) (p : List (List (Option Nat))) : Bool :=
  p.foldr (fun t acc => xor (evalMono w t) acc) false

/-- expressions over polynomial values (the leaves are values of the implementation) -/
inductive PExpr
  | leaf (p : List (List (Option Nat)))
  | const (k : Int)
  | add (a b : PExpr)
  | mul (a b : PExpr)
  | pow (a : PExpr) (k : Nat)
  | shift (a : PExpr) (c : Nat)
deriving Repr, Inhabited

def PExpr.eval (w : Nat → Bool) : PExpr → Bool
  | .leaf p => evalPoly w p
  | .const k => k % 2 != 0
  | .add a b => xor (a.eval w) (b.eval w)
  | .mul a b => a.eval w && b.eval w
  | .pow a k => if k = 0 then true else a.eval w
  | .shift a c => a.eval (fun i => w (i + c))

/-- assignment given by the list of variables that are set -/
def assignOf (ones : List Nat) : Nat → Bool := fun i => ones.contains i

/-- all sublists (as sets of variables set to 1) of `vars` -/
def subsets : List Nat → List (List Nat)
  | [] => [[]]
  | x :: r => let s := subsets r; s ++ s.map (x :: ·)

/-- first assignment (all subsets of `vars` set to 1 on top of the fixed set `base`, all other
variables 0) on which two expressions differ -/
def firstDiffPoly (base vars : List Nat) (l r : PExpr) : Option (List Nat) :=
  ((subsets vars).map (base ++ ·)).find? fun ones => l.eval (assignOf ones) != r.eval (assignOf ones)

/-! ### codes -/

/-- bit `i` of an occupation vector given as a mask (mode `i` = bit `i`) -/
def bit (v i : Nat) : Nat := if v.testBit i then 1 else 0

/-- `(A v) mod 2` as a mask over qubits; `A` is a list of rows -/
def encodeMask (A : List (List Nat)) (v : Nat) : Nat :=
  (A.zipIdx).foldl (fun acc (row, q) =>
    let s := (row.zipIdx).foldl (fun a (e, m) => a + e * bit v m) 0
    if s % 2 = 1 then acc ||| (1 <<< q) else acc) 0

/-- decode a qubit mask with the decoder polynomials, as a mask over modes -/
def decodeMask (d : List (List (List (Option Nat)))) (w : Nat) : Nat :=
  (d.zipIdx).foldl (fun acc (p, m) =>
    if evalPoly (fun i => w.testBit i) p then acc ||| (1 <<< m) else acc) 0

/-- first `v` of the domain with `d(e(v)) ≠ v`, or two domain vectors with the same encoding -/
def firstInvalid (A : List (List Nat)) (d : List (List (List (Option Nat)))) (dom : List Nat) :
    Option (Nat × Nat × Nat) :=
  match dom.find? (fun v => decodeMask d (encodeMask A v) != v) with
  | some v => some (v, encodeMask A v, decodeMask d (encodeMask A v))
  | none =>
    -- injectivity on the domain (a consequence of validity, checked independently)
    let encs := dom.map fun v => (encodeMask A v, v)
    encs.findSome? fun (w, v) =>
      match encs.find? (fun (w', v') => w' == w && v' != v) with
      | some (_, v') => some (v, w, v')
      | none => none

/-! ### binary_code_transform -/

inductive BctVerdict
  | ok
  | leavesDomain (v img : Nat)
  | differs (v : Nat) (lhs rhs : GV)

/-- for every `v` of the domain: `Q |enc v⟩ = Σ c |enc v'⟩` where `F |v⟩ = Σ c |v'⟩` -/
def bctCheck (A : List (List Nat)) (dom : List Nat) (F Q : List (List (Nat × Nat) × GQ)) : BctVerdict :=
  let go := dom.findSome? fun v =>
    let img := GV.nonzero (applyOp .fermion F [v])
    match img.find? (fun (s, _) => !(dom.contains (maskOf s))) with
    | some (s, _) => some (BctVerdict.leavesDomain v (maskOf s))
    | none =>
      let rhs : GV := img.foldl (fun acc (s, c) => GV.addEntry acc [encodeMask A (maskOf s)] c) []
      let lhs : GV := applyOp .qubit Q [encodeMask A v]
      if GV.eqv lhs rhs then none else some (BctVerdict.differs v (GV.nonzero lhs) (GV.nonzero rhs))
  go.getD .ok

end C09
end Spec
end OFV
