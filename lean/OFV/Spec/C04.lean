/-
Spec for C04: what the Jordan-Wigner transform must denote.  Mode `j` is stored on
qubit `j`, so a fermionic Fock mask and a qubit basis mask are identified; an operator
`Q` on qubits is the image of a fermionic (or Majorana) operator `A` iff they act
identically on every basis state.  Independent of the Model.  Import-free.
-/
import OFV.Spec.Expr

namespace OFV
namespace Spec
namespace C04

abbrev Op := List (List (Nat × Nat) × GQ)

/-- first basis state `s < 2^n` on which `A` (algebra `alg`) and the qubit operator `Q` differ -/
def jwCheck (alg : Alg) (n : Nat) (A Q : Op) : Option (Nat × GV × GV) :=
  (List.range (2 ^ n)).findSome? fun s =>
    let a := applyOp alg A [s]
    let b := applyOp .qubit Q [s]
    if GV.eqv a b then none else some (s, GV.nonzero a, GV.nonzero b)

/-- Hermitian conjugate of a ladder term -/
def dagTerm (t : List (Nat × Nat)) : List (Nat × Nat) := t.reverse.map fun f => (f.1, 1 - f.2)

/-- `c a†_p a_q + h.c.`; the diagonal term is its own conjugate and is counted once
("divided by a factor of 2") -/
def oneBodyOp (p q : Nat) (c : GQ) : Op :=
  if p = q then [([(p, 1), (p, 0)], c)]
  else [([(p, 1), (q, 0)], c), ([(q, 1), (p, 0)], c.conj)]

/-- `c a†_p a†_q a_r a_s + h.c.`; when `{p,q} = {r,s}` the term is its own conjugate
and is counted once -/
def twoBodyOp (p q r s : Nat) (c : GQ) : Op :=
  let T := [(p, 1), (q, 1), (r, 0), (s, 0)]
  if (p = r ∧ q = s) ∨ (p = s ∧ q = r) then [(T, c)]
  else [(T, c), (dagTerm T, c.conj)]

/-- the fermionic operator an `InteractionOperator` stands for:
`const + Σ T1[p,q] a†_p a_q + Σ T2[p,q,r,s] a†_p a†_q a_r a_s` (row-major tensors) -/
def interactionOp (n : Nat) (const : GQ) (one two : List GQ) : Op :=
  let idx := List.range n
  [([], const)]
  ++ (idx.flatMap fun p => idx.map fun q => ([(p, 1), (q, 0)], one.getD (p * n + q) 0))
  ++ (idx.flatMap fun p => idx.flatMap fun q => idx.flatMap fun r => idx.map fun s =>
        ([(p, 1), (q, 1), (r, 0), (s, 0)], two.getD (((p * n + q) * n + r) * n + s) 0))

/-- `DiagonalCoulombHamiltonian`: `Σ T[p,q] a†_p a_q + Σ V[p,q] n_p n_q + const` (all ordered pairs) -/
def dchOp (n : Nat) (const : GQ) (one two : List GQ) : Op :=
  let idx := List.range n
  [([], const)]
  ++ (idx.flatMap fun p => idx.map fun q => ([(p, 1), (q, 0)], one.getD (p * n + q) 0))
  ++ (idx.flatMap fun p => idx.map fun q =>
        ([(p, 1), (p, 0), (q, 1), (q, 0)], two.getD (p * n + q) 0))

end C04
end Spec
end OFV
