/-
C18 — executable reference predicates (the property statement itself).  They are evaluated by the
driver on the *implementation's* yields (oracle) and are the right-hand sides of the theorems about
the Model.  Only the data type `Item` is shared with the Model.  Import-free.
-/
import OFV.Model.C18
import OFV.Model.Symbolic

namespace OFV
namespace Spec
namespace C18
open Model.C18

/-- a label as the implementation yields it (`None` is the padding of `pair_within`) -/
abbrev L := Option Nat

/-- the labels used by a pairing, in order -/
def labelsOf {β : Type} : Pairing β → List β
  | [] => []
  | .pr a b :: r => a :: b :: labelsOf r
  | .sg a :: r => a :: labelsOf r
  | .bad :: r => labelsOf r

def wellFormed {β : Type} : Pairing β → Bool
  | [] => true
  | .bad :: _ => false
  | _ :: r => wellFormed r

def singles {β : Type} : Pairing β → Nat
  | [] => 0
  | .sg _ :: r => singles r + 1
  | _ :: r => singles r

/-- `p` uses every label of `labels` exactly once, in pairs except for `nsingles` bare labels -/
def isMatchingOf (labels : List L) (nsingles : Nat) (p : Pairing L) : Bool :=
  wellFormed p && (labelsOf p).isPerm labels && singles p == nsingles

/-- `p` uses no label twice and only labels of `labels` -/
def isPartialMatchingOf (labels : List L) (p : Pairing L) : Bool :=
  wellFormed p && decide (labelsOf p).Nodup && (labelsOf p).all (labels.contains ·)

def hasPair (p : Pairing L) (a b : L) : Bool := p.contains (.pr a b) || p.contains (.pr b a)

/-- every unordered pair of distinct labels is paired in some yield -/
def coversPairs (labels : List L) (ys : List (Pairing L)) : Bool :=
  labels.all fun a => labels.all fun b => a == b || ys.any (hasPair · a b)

/-- number of yields-with-multiplicity in which `a` is paired with `b` -/
def pairCount (ys : List (Pairing L)) (a b : L) : Nat :=
  (ys.map fun p => p.count (.pr a b) + p.count (.pr b a)).sum

/-- every cross pair occurs exactly once -/
def crossOnce (f1 f2 : List L) (ys : List (Pairing L)) : Bool :=
  f1.all fun a => f2.all fun b => pairCount ys a b == 1

/-- `pair_within` statement: perfect matchings (one bare label when odd) containing every pair -/
def pairWithinOk (labels : List L) (ys : List (Pairing L)) : Bool :=
  ys.all (isMatchingOf labels (labels.length % 2)) && coversPairs labels ys

/-- `pair_between` statement (offset 0): matchings + leftovers, every cross pair exactly once -/
def pairBetweenOk (f1 f2 : List L) (ys : List (Pairing L)) : Bool :=
  ys.all (isMatchingOf (f1 ++ f2) (max f1.length f2.length - min f1.length f2.length))
    && crossOnce f1 f2 ys

/-! ### four-label coverage -/

def subsetsLen {β : Type} : Nat → List β → List (List β)
  | 0, _ => [[]]
  | _ + 1, [] => []
  | k + 1, a :: r => (subsetsLen k r).map (a :: ·) ++ subsetsLen (k + 1) r

/-- some yield contains both pairs -/
def coSched (ys : List (Pairing L)) (a b c d : L) : Bool :=
  ys.any fun p => hasPair p a b && hasPair p c d

/-- one of the three splits of `{a,b,c,d}` into two pairs is co-scheduled -/
def quadOk (ys : List (Pairing L)) (a b c d : L) : Bool :=
  coSched ys a b c d || coSched ys a c b d || coSched ys a d b c

/-- labels with their bin index -/
def binned (bins : List (List L)) : List (L × Nat) :=
  bins.zipIdx.flatMap fun (bi : List L × Nat) => bi.1.map fun x => (x, bi.2)

/-- `pair_within_simultaneously*` statement: every yield is a partial matching of the labels and
every four labels whose bin indices XOR to 0 (all of them when there is one bin) have a
co-scheduled split -/
def quadsCovered (bins : List (List L)) (ys : List (Pairing L)) : Bool :=
  ys.all (isPartialMatchingOf bins.flatten) &&
  (subsetsLen 4 (binned bins)).all fun q =>
    match q with
    | [a, b, c, d] => (a.2 ^^^ b.2 ^^^ c.2 ^^^ d.2 != 0) || quadOk ys a.1 b.1 c.1 d.1
    | _ => true

/-- first uncovered allowed quadruple (for the replay record) -/
def firstUncovered (bins : List (List L)) (ys : List (Pairing L)) : Option (List (L × Nat)) :=
  (subsetsLen 4 (binned bins)).find? fun q =>
    match q with
    | [a, b, c, d] => !((a.2 ^^^ b.2 ^^^ c.2 ^^^ d.2 != 0) || quadOk ys a.1 b.1 c.1 d.1)
    | _ => false

/-! ### `_get_padding`, `_asynchronous_iter` -/

/-- `t` has a divisor `d` with `2 ≤ d < numBins - 1` -/
def smallDivisor (numBins t : Nat) : Bool := (List.range (numBins - 1)).any fun d => 2 ≤ d && t % d == 0

/-- `_get_padding` statement: `r` is the smallest `L' ≥ binSize` without a divisor in `[2, numBins-1)` -/
def isPadding (numBins binSize r : Nat) : Bool :=
  binSize ≤ r && !smallDivisor numBins r && (List.range r).all fun t => t < binSize || smallDivisor numBins t

/-- all items of `x` occur in `r` -/
def within {β : Type} [BEq β] (x r : List β) : Bool := x.all (r.contains ·)

/-- `_asynchronous_iter` statement ("generate all pairs between them"): any two results of two
different iterators occur together in some yield -/
def asyncCovers (lists : List (List (Pairing L))) (ys : List (Pairing L)) : Bool :=
  lists.zipIdx.all fun li => lists.zipIdx.all fun lj =>
    li.2 == lj.2 || li.1.all fun x => lj.1.all fun y => ys.any fun r => within x r && within y r

/-! ### qubit partitions -/

def isPartitionOf (labels : List Nat) (k : Nat) (parts : List (List Nat)) : Bool :=
  parts.length == k && parts.flatten.isPerm labels

/-- every part contains exactly one element of `sub` -/
def splitBy (parts : List (List Nat)) (sub : List Nat) : Bool :=
  parts.all fun p => (sub.filter (p.contains ·)).length == 1

/-- `partition_iterator` statement: yields are `k`-partitions and every `k`-subset is perfectly split -/
def splitsAll (labels : List Nat) (k : Nat) (ys : List (List (List Nat))) : Bool :=
  ys.all (isPartitionOf labels k) && (subsetsLen k labels).all fun sub => ys.any (splitBy · sub)

def words : Nat → List (List Nat)
  | 0 => [[]]
  | w + 1 => (words w).flatMap fun t => [1, 2, 3].map (· :: t)

/-- string `s` shows the letters `w` on the qubits `sub` -/
def showsWord (s : List Nat) (sub w : List Nat) : Bool :=
  (sub.zip w).all fun qw => s.getD qw.1 0 == qw.2

/-- `pauli_string_iterator` statement: every Pauli word of weight `≤ k` on `n` qubits occurs -/
def wordsCovered (n k : Nat) (strings : List (List Nat)) : Bool :=
  strings.all (fun s => s.length == n && s.all (· ≤ 3)) &&
  (List.range' 1 k).all fun w =>
    (subsetsLen w (List.range n)).all fun sub => (words w).all fun wd => strings.any (showsWord · sub wd)

/-! ### tensor-product-basis groups -/

open Model in
/-- a key names a tensor product basis: one Pauli (1 = X, 2 = Y, 3 = Z) per qubit, sorted -/
def isBasis (key : Term) : Bool :=
  key.all (fun f => 1 ≤ f.2 && f.2 ≤ 3) && decide (List.Pairwise (fun (a b : Nat × Nat) => a.1 < b.1) key)

open Model in
/-- the Pauli word `t` is diagonal in the basis `key` -/
def diagonalIn (key t : Term) : Bool := t.all (key.contains ·)

open Model in
/-- `group_into_tensor_product_basis_sets` statement: keys are distinct bases, every term of a group
is diagonal in its key, and the groups' non-zero terms are exactly the operator's non-zero terms
(a partition of the terms that sums back to the operator). -/
def tpbOk (op : Op) (groups : List (Term × Op)) : Bool :=
  decide (groups.map (·.1)).Nodup &&
  groups.all (fun g => isBasis g.1 && g.2.all (fun tc => diagonalIn g.1 tc.1)) &&
  ((groups.flatMap (·.2)).filter (fun tc => tc.2 != 0)).isPerm (op.filter (fun tc => tc.2 != 0))

end C18
end Spec
end OFV
