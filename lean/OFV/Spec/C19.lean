/-
C19 — executable reference predicates (the property statement), evaluated by the driver on the
implementation's own outputs and used as the right-hand sides of the theorems.  Import-free.
-/
import OFV.Spec.Basic

namespace OFV
namespace Spec
namespace C19

def isum (l : List Int) : Int := l.foldl (· + ·) 0
def rsum (l : List Rat) : Rat := l.foldl (· + ·) 0
def rabs (x : Rat) : Rat := if x < 0 then -x else x

/-! ### alias tables -/

/-- weight with which the two-stage process returns `k`, in units of `1 / (n * target)`:
`sum_i [i = k] keep_i + [alt_i = k] (target - keep_i)` -/
def twoStageWeight (target : Int) (alt : List Nat) (keep : List Int) (k : Nat) : Int :=
  isum ((List.range alt.length).map fun i =>
    (if i = k then keep.getD i 0 else 0) + (if alt.getD i 0 = k then target - keep.getD i 0 else 0))

/-- `_preprocess_for_efficient_roulette_selection` statement: valid alternates, `0 ≤ keep ≤ target`
and the two-stage distribution is exactly the input distribution (integer arithmetic) -/
def aliasOk (ws : List Int) (alt : List Nat) (keep : List Int) : Bool :=
  let n := ws.length
  let target := isum ws / (n : Int)
  alt.length == n && keep.length == n &&
  alt.all (· < n) && keep.all (fun k => 0 ≤ k && k ≤ target) &&
  (List.range n).all fun k => twoStageWeight target alt keep k == ws.getD k 0

/-- `_discretize_probability_distribution` statement: `n` non-negative numerators over the common
denominator `n * 2^mu` that sum to it, each within `eps` of the normalised probability -/
def discretizeOk (probs : List Rat) (eps : Rat) (numers : List Int) (denom mu : Nat) : Bool :=
  let n := probs.length
  let total := rsum probs
  numers.length == n && denom == n * 2 ^ mu && isum numers == (denom : Int) &&
  numers.all (0 ≤ ·) &&
  (numers.zip probs).all fun e => rabs ((e.1 : Rat) / (denom : Rat) - e.2 / total) ≤ eps

/-- `preprocess_lcu_coefficients_for_reversible_sampling` statement: valid alternates,
`0 ≤ keep ≤ 2^mu`, and the probability of returning `k` in the two-stage process
(uniform `i`, keep with probability `keep_i / 2^mu`, else `alternates[i]`) is within `eps` of
`coeffs[k] / sum(coeffs)` -/
def lcuOk (coeffs : List Rat) (eps : Rat) (alt : List Nat) (keep : List Int) (mu : Nat) : Bool :=
  let n := coeffs.length
  let target : Int := 2 ^ mu
  let total := rsum coeffs
  alt.length == n && keep.length == n &&
  alt.all (· < n) && keep.all (fun k => 0 ≤ k && k ≤ target) &&
  (List.range n).all fun k =>
    rabs ((twoStageWeight target alt keep k : Rat) / ((n : Rat) * (target : Rat)) - coeffs.getD k 0 / total) ≤ eps

/-! ### 1-norm of the Jordan–Wigner image, from the Spec action of ladder operators -/

def popcount (m bits : Nat) : Nat := ((List.range bits).filter fun k => m.testBit k).length

/-- `2^n * c_P` for the Pauli string with X-mask `x` and Z-mask `z` (`P = i^{|x∧z|} X^x Z^z`):
`Tr(P H) = i^{|x∧z|} Σ_s (-1)^{|z ∧ (s⊕x)|} ⟨s⊕x|H|s⟩` -/
def pauliTrace (n : Nat) (cols : List SV) (x z : Nat) : GQ :=
  let tr := (List.range (2 ^ n)).foldl (fun (acc : GQ) s =>
    let t := s ^^^ x
    let c := SV.coeff (cols.getD s []) t
    if popcount (z &&& t) n % 2 = 0 then acc + c else acc - c) 0
  GQ.ipow (popcount (x &&& z) n) * tr

/-- sum of `|c_P|` over all Pauli strings on `n` qubits (the identity included iff `withId`);
`none` when a coefficient is not real (the operator is not Hermitian) -/
def jwOneNorm (n : Nat) (A : List (List (Nat × Nat) × GQ)) (withId : Bool) : Option Rat :=
  let cols := (List.range (2 ^ n)).map (applyF A)
  let r := (List.range (2 ^ n)).foldl (fun (acc : Option Rat) x =>
    (List.range (2 ^ n)).foldl (fun (acc : Option Rat) z =>
      match acc with
      | none => none
      | some a =>
        if x = 0 ∧ z = 0 ∧ !withId then some a else
        let c := pauliTrace n cols x z
        if c.im ≠ 0 then none else some (a + rabs c.re)) acc) (some 0)
  r.map (· / (2 ^ n : Nat))

/-! ### the molecular Hamiltonian of `get_one_norm_int` -/

def m2 (h : List (List Rat)) (p q : Nat) : Rat := (h.getD p []).getD q 0
def m4 (g : List (List (List (List Rat)))) (p q r s : Nat) : Rat := (((g.getD p []).getD q []).getD r []).getD s 0

/-- `constant + Σ h_pq a†_{pσ} a_{qσ} + ½ Σ g_pqrs a†_{pσ} a†_{qτ} a_{rτ} a_{sσ}` over `n` spatial orbitals; spin orbital
`2p + σ` (the operator `MolecularData.get_molecular_hamiltonian` builds from spatial integrals) -/
def molOp (n : Nat) (const : Rat) (h : List (List Rat)) (g : List (List (List (List Rat)))) :
    List (List (Nat × Nat) × GQ) :=
  [([], (⟨const, 0⟩ : GQ))]
  ++ ((List.range n).flatMap fun p => (List.range n).flatMap fun q => (List.range 2).map fun σ =>
        ([(2 * p + σ, 1), (2 * q + σ, 0)], (⟨m2 h p q, 0⟩ : GQ)))
  ++ ((List.range n).flatMap fun p => (List.range n).flatMap fun q => (List.range n).flatMap fun r =>
        (List.range n).flatMap fun s => (List.range 2).flatMap fun σ => (List.range 2).map fun τ =>
          ([(2 * p + σ, 1), (2 * q + τ, 1), (2 * r + τ, 0), (2 * s + σ, 0)], (⟨m4 g p q r s / 2, 0⟩ : GQ)))

/-- the one-body matrix of the spin-orbital Hamiltonian: `T[2p+σ, 2q+τ] = δ_στ h_pq` -/
def spinOne (n : Nat) (h : List (List Rat)) : List (List Rat) :=
  (List.range (2 * n)).map fun i => (List.range (2 * n)).map fun j => if i % 2 = j % 2 then m2 h (i / 2) (j / 2) else 0

/-- the density-density matrix of Coulomb-type integrals: `V[(pσ), (qτ)] = ½ g_pqqp` off the diagonal -/
def spinCoulomb (n : Nat) (g : List (List (List (List Rat)))) : List (List Rat) :=
  (List.range (2 * n)).map fun i => (List.range (2 * n)).map fun j =>
    if i = j then 0 else m4 g (i / 2) (j / 2) (j / 2) (i / 2) / 2

/-! ### `cost_estimator`: the selection among the feasible layouts -/

/-- statement of the selection loop: `none` iff no candidate is feasible; otherwise the returned candidate is feasible,
its `qubits × rounds` is minimal among the feasible ones and strictly smaller than that of every earlier feasible one -/
def selectOk (cands : List (Nat × Nat)) (feasible : List Bool) (res : Option (Nat × Nat × Nat)) : Bool :=
  let n := min cands.length feasible.length
  let cost := fun j => (cands.getD j (0, 0)).1 * (cands.getD j (0, 0)).2
  match res with
  | none => (List.range n).all fun j => feasible.getD j false == false
  | some (i, q, r) =>
    decide (i < n) && (cands.getD i (0, 0) == (q, r)) && feasible.getD i false &&
    (List.range n).all fun j => feasible.getD j false == false ||
      (decide (q * r ≤ cost j) && (decide (i ≤ j) || decide (q * r < cost j)))

/-! ### operators in Pauli form -/

/-- sum of `|c|` over the strings of a qubit operator stored as (Pauli string, real coefficient) pairs; the identity
string `[]` is included iff `withId` -/
def pauliListNorm (A : List (List (Nat × Nat) × GQ)) (withId : Bool) : Rat :=
  (A.map fun tc => if tc.1 = [] ∧ withId = false then 0 else rabs tc.2.re).sum

/-- a real `n × n` matrix (list of rows) as the row-major complex tensor the transforms take -/
def flatReal (n : Nat) (M : List (List Rat)) : List GQ :=
  (List.range (n * n)).map fun i => (⟨(M.getD (i / n) []).getD (i % n) 0, 0⟩ : GQ)

/-! ### QROM helpers -/

/-- `QR` statement: `k` minimises `L/2^k + M(2^k - 1)` over all `k' ≤ bound` and `val` is the ceiling
of the minimum -/
def qrOk (L M k val bound : Nat) : Bool :=
  let f := fun (j : Nat) => (L : Rat) / (2 ^ j : Nat) + (M : Rat) * ((2 ^ j : Nat) - 1)
  (List.range (bound + 1)).all (fun j => f k ≤ f j) && ((f k).ceil == (val : Int))

def qiOk (L k val bound : Nat) : Bool :=
  let f := fun (j : Nat) => (L : Rat) / (2 ^ j : Nat) + (2 ^ j : Nat)
  (List.range (bound + 1)).all (fun j => f k ≤ f j) && ((f k).ceil == (val : Int))

def cdiv (a b : Nat) : Nat := (a + b - 1) / b

/-- `QR2` / `QI2` statement: `(2^k1, 2^k2)` is a minimiser of the cost over the grid `1 ≤ k1, k2 ≤ 16` -/
def grid2Ok (value : Nat → Nat → Nat) (p1 p2 val : Nat) : Bool :=
  (List.range' 1 16).any (fun k1 => (List.range' 1 16).any fun k2 =>
    p1 == 2 ^ k1 && p2 == 2 ^ k2 && value k1 k2 == val) &&
  (List.range' 1 16).all (fun k1 => (List.range' 1 16).all fun k2 => val ≤ value k1 k2)

def qr2Value (L1 L2 M k1 k2 : Nat) : Nat := cdiv L1 (2 ^ k1) * cdiv L2 (2 ^ k2) + M * (2 ^ (k1 + k2) - 1)
def qi2Value (L1 L2 k1 k2 : Nat) : Nat := cdiv L1 (2 ^ k1) * cdiv L2 (2 ^ k2) + 2 ^ (k1 + k2)

/-- `power_two` statement: 2-adic valuation (`0` for `m = 0`) -/
def powerTwoOk (m c : Nat) : Bool :=
  if m = 0 then c == 0 else m % 2 ^ c == 0 && m % 2 ^ (c + 1) != 0

/-! ### cost functions -/

/-- statement for `compute_cost` / `cost_sparse`: total = per-step × iterations when the per-step
cost is an integer -/
def totalOk (step total iters : Int) : Bool := total == step * iters

end C19
end Spec
end OFV
