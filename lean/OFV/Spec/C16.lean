/-
C16 — Spec: what "reproduces the matrix elements of the kept sector" means.
A reduced operator `B` on `m` qubits / modes corresponds to the operator `A` on the full register
through an embedding of basis states: bit `j` of the small mask goes to position `modeMap[j]`, the
positions in `ones` are set (qubit projected onto the `1` sector / occupied frozen orbital), every
other position is clear.  `B` is correct iff `⟨t|B|s⟩ = ⟨embed t|A|embed s⟩` for all `s, t < 2^m`.
Import-free.
-/
import OFV.Spec.Expr

namespace OFV
namespace Spec
namespace C16

def embed (modeMap ones : List Nat) (s : Nat) : Nat :=
  let a := modeMap.zipIdx.foldl (fun acc (p, j) => if s.testBit j then acc ||| (1 <<< p) else acc) 0
  ones.foldl (fun acc p => acc ||| (1 <<< p)) a

/-- first `(s, t, ⟨t|B|s⟩, ⟨embed t|A|embed s⟩)` that differ -/
def embedDiff (alg : Alg) (m : Nat) (modeMap ones : List Nat)
    (A B : List (List (Nat × Nat) × GQ)) : Option (Nat × Nat × GQ × GQ) :=
  (List.range (2 ^ m)).findSome? fun s =>
    let vb := applyOp alg B [s]
    let va := applyOp alg A [embed modeMap ones s]
    (List.range (2 ^ m)).findSome? fun t =>
      let b := GV.coeff vb [t]
      let a := GV.coeff va [embed modeMap ones t]
      if a == b then none else some (s, t, b, a)

/-- dense matrix (rows `t`, columns `s`) of an operator expression on masks `< 2^n` -/
def denseExpr (alg : Alg) (n : Nat) (e : Expr) : List (List GQ) :=
  let cols := (List.range (2 ^ n)).map fun s => e.apply alg [([s], 1)]
  (List.range (2 ^ n)).map fun t => cols.map fun col => GV.coeff col [t]

end C16
end Spec
end OFV
