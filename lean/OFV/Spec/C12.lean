/-
C12 — reference semantics of the statement "the orbital energies and constant generate the exact
many-body spectrum as subset sums; ground_energy is the lowest eigenvalue".  Import-free.
-/
namespace OFV
namespace Spec
namespace C12

/-- all `2^n` subset sums `Σ_{j ∈ S} ε_j` (the many-body spectrum of `Σ ε_j b†_j b_j`, shifted by the
constant by the caller) -/
def subsetSums : List Rat → List Rat
  | [] => [0]
  | e :: es => subsetSums es ++ (subsetSums es).map (· + e)

/-- the spectrum `{c + Σ_{j∈S} ε_j}` -/
def spectrum (es : List Rat) (c : Rat) : List Rat := (subsetSums es).map (· + c)

def listMin : List Rat → Rat
  | [] => 0
  | [x] => x
  | x :: xs => let m := listMin xs; if x ≤ m then x else m

/-- lowest eigenvalue according to the subset-sum statement -/
def lowest (es : List Rat) (c : Rat) : Rat := listMin (spectrum es c)

def insertSorted (x : Rat) : List Rat → List Rat
  | [] => [x]
  | y :: ys => if x ≤ y then x :: y :: ys else y :: insertSorted x ys

def sort (l : List Rat) : List Rat := l.foldr insertSorted []

end C12
end Spec
end OFV
