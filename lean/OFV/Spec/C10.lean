/-
Spec for C10 (symmetry sectors, basis-state helpers), independent of the Model.

Conventions.  A Fock basis state is a mask (mode `j` = bit `j`, as in OFV.Spec.Basic).  The
matrices of `get_sparse_operator` / `jw_configuration_state` index basis states big-endian:
mode `j` of an `n`-qubit register is bit `n - 1 - j` of the matrix index.
Import-free; executable (oracle on the implementation's own outputs).
-/
import OFV.Spec.Expr

namespace OFV
namespace Spec
namespace C10

/-- particle number of a mask / matrix index on `n` modes -/
def popcount (s n : Nat) : Nat := countBelow s n

/-- mask of the basis state with big-endian matrix index `idx` on `n` qubits -/
def maskOfIndex (n idx : Nat) : Nat :=
  (List.range n).foldl (fun acc j => if idx.testBit (n - 1 - j) then acc ||| (1 <<< j) else acc) 0

/-- mask of an occupation list -/
def maskOfDet (d : List Bool) : Nat :=
  (d.zipIdx).foldl (fun acc (b, j) => if b then acc ||| (1 <<< j) else acc) 0

/-- all matrix indices `< 2^n` with particle number `k` -/
def numberSector (n k : Nat) : List Nat := (List.range (2 ^ n)).filter fun i => popcount i n == k

/-- `2 S_z` of the basis state with matrix index `idx`: `Σ_s n_{up s} - n_{down s}` -/
def twoSz (n idx : Nat) (up down : List Nat) : Int :=
  let occ := fun (k : Nat) => idx.testBit (n - 1 - k)
  ((up.filter occ).length : Int) - ((down.filter occ).length : Int)

def szSector (n : Nat) (sz2 : Int) (nel : Option Nat) (up down : List Nat) : List Nat :=
  (List.range (2 ^ n)).filter fun i =>
    twoSz n i up down == sz2 && (match nel with | some k => popcount i n == k | none => true)

/-- is `l` a duplicate-free enumeration of exactly the members of `expected`? -/
def sameSet (l expected : List Nat) : Bool :=
  l.length == expected.length && l.all (expected.contains ·) && expected.all (l.contains ·)

/-- first `(a, b)` (positions in the basis) with `M[a][b] ≠ ⟨mask_a| F |mask_b⟩` -/
def firstBadEntry (F : List (List (Nat × Nat) × GQ)) (masks : List Nat) (M : List (List GQ)) :
    Option (Nat × Nat × GQ × GQ) :=
  (masks.zipIdx).findSome? fun (mb, b) =>
    let col := applyF F mb
    (masks.zipIdx).findSome? fun (ma, a) =>
      let want := SV.coeff col ma
      let got := (M.getD a []).getD b 0
      if got == want then none else some (a, b, got, want)

/-- expected determinants of `_iterate_basis_`: same particle number as the reference, at most
`level` orbitals of the reference vacated, and (if `spin`) the same number of even-mode
(alpha) particles -/
def expectedBasis (ref : List Bool) (level : Nat) (spin : Bool) : List Nat :=
  let n := ref.length
  let r := maskOfDet ref
  let alpha := fun (s : Nat) => ((List.range n).filter fun j => j % 2 == 0 && s.testBit j).length
  (List.range (2 ^ n)).filter fun s =>
    popcount s n == popcount r n &&
    ((List.range n).filter fun j => r.testBit j && !s.testBit j).length ≤ level &&
    (!spin || alpha s == alpha r)

end C10
end Spec
end OFV
