/-
Spec: reference semantics of symbolic operators, written independently of the
library.  A basis state of a register of qubits / fermionic modes is a bit
mask `s : Nat` (bit `j` = qubit / mode `j`).  A factor acts on a basis state
and yields a phase and a new basis state (or annihilates it).  Import-free.
-/
import OFV.Core.GQ
import OFV.Core.Dict

namespace OFV
namespace Spec

/-! ### sparse vectors over basis masks -/

abbrev SV := List (Nat × GQ)

def SV.addEntry (v : SV) (s : Nat) (c : GQ) : SV :=
  match v with
  | [] => [(s, c)]
  | (s', c') :: r => if s' = s then (s', c' + c) :: r else (s', c') :: SV.addEntry r s c

def SV.coeff (v : SV) (s : Nat) : GQ := Dict.getD v s 0

def SV.addAll (v w : SV) : SV := w.foldl (fun acc (s, c) => SV.addEntry acc s c) v

def SV.scale (c : GQ) (v : SV) : SV := v.map fun (s, a) => (s, c * a)

def SV.nonzero (v : SV) : SV := v.filter fun (_, c) => c != 0

/-- insertion sort by mask (canonical output) -/
def SV.insertSorted (e : Nat × GQ) : SV → SV
  | [] => [e]
  | x :: r => if e.1 ≤ x.1 then e :: x :: r else x :: SV.insertSorted e r

def SV.canon (v : SV) : SV := (SV.nonzero v).foldr SV.insertSorted []

/-! ### qubit algebra: Pauli codes 0 = I, 1 = X, 2 = Y, 3 = Z -/

def bitNat (s j : Nat) : Nat := if s.testBit j then 1 else 0

/-- Action of Pauli `p` on qubit `j` of basis state `s`:
    `(k, s')` meaning `i^k |s'⟩`.  `Y|0⟩ = i|1⟩`, `Y|1⟩ = -i|0⟩`. -/
def actP (j p s : Nat) : Nat × Nat :=
  match p with
  | 1 => (0, s ^^^ (1 <<< j))
  | 2 => (if s.testBit j then 3 else 1, s ^^^ (1 <<< j))
  | 3 => (if s.testBit j then 2 else 0, s)
  | _ => (0, s)

/-- A term (product of factors, leftmost factor applied last) on a basis state. -/
def actPTerm (t : List (Nat × Nat)) (s : Nat) : Nat × Nat :=
  t.foldr (fun f acc => let r := actP f.1 f.2 acc.2; ((acc.1 + r.1) % 4, r.2)) (0, s)

/-- `A|s⟩` as a sparse vector, for `A` a list of (Pauli term, coefficient). -/
def applyQ (A : List (List (Nat × Nat) × GQ)) (s : Nat) : SV :=
  A.foldl (fun acc (t, c) => let r := actPTerm t s; SV.addEntry acc r.2 (c * GQ.ipow r.1)) []

/-- matrix element `⟨t|A|s⟩` -/
def melQ (A : List (List (Nat × Nat) × GQ)) (t s : Nat) : GQ := SV.coeff (applyQ A s) t

/-! ### fermion algebra: action 1 = creation, 0 = annihilation; mode `j` on bit `j`,
    `a_j = Z_0 … Z_{j-1} (X_j + iY_j)/2` i.e. sign `(-1)^{#occupied modes below j}` -/

def countBelow (s j : Nat) : Nat := ((List.range j).filter fun k => s.testBit k).length

/-- `some (k, s')` meaning `(-1)^k |s'⟩`, `none` meaning 0. -/
def actF (j a s : Nat) : Option (Nat × Nat) :=
  if (a == 1) == s.testBit j then none
  else some (countBelow s j % 2, s ^^^ (1 <<< j))

def actFTerm (t : List (Nat × Nat)) (s : Nat) : Option (Nat × Nat) :=
  t.foldr (fun f acc => match acc with
    | none => none
    | some (k, s') => match actF f.1 f.2 s' with
      | none => none
      | some (k', s'') => some ((k + k') % 2, s'')) (some (0, s))

def applyF (A : List (List (Nat × Nat) × GQ)) (s : Nat) : SV :=
  A.foldl (fun acc (t, c) => match actFTerm t s with
    | none => acc
    | some (k, s') => SV.addEntry acc s' (c * GQ.sgn k)) []

def melF (A : List (List (Nat × Nat) × GQ)) (t s : Nat) : GQ := SV.coeff (applyF A s) t

/-! ### Majorana algebra: `γ_{2j} = a_j + a_j†`, `γ_{2j+1} = i (a_j† - a_j)`;
  on a basis state both flip bit `j`; phases: `γ_{2j}|s⟩ = (-1)^{below}|s⊕j⟩`,
  `γ_{2j+1}|s⟩ = (-1)^{below} · (i if bit j = 0 (creation) else -i)|s⊕j⟩`. -/
def actM (m s : Nat) : Nat × Nat :=
  let j := m / 2
  let sg := 2 * (countBelow s j % 2)
  if m % 2 == 0 then (sg % 4, s ^^^ (1 <<< j))
  else ((sg + (if s.testBit j then 3 else 1)) % 4, s ^^^ (1 <<< j))

def actMTerm (t : List Nat) (s : Nat) : Nat × Nat :=
  t.foldr (fun m acc => let r := actM m acc.2; ((acc.1 + r.1) % 4, r.2)) (0, s)

def applyM (A : List (List Nat × GQ)) (s : Nat) : SV :=
  A.foldl (fun acc (t, c) => let r := actMTerm t s; SV.addEntry acc r.2 (c * GQ.ipow r.1)) []

/-! ### dense comparisons used by the failing-input search (executable) -/

/-- first `(s, t, lhs, rhs)` with `lhs ≠ rhs`, over columns `s < 2^n`. -/
def firstDiff (n : Nat) (f g : Nat → SV) : Option (Nat × SV × SV) :=
  (List.range (2 ^ n)).findSome? fun s =>
    let a := SV.canon (f s); let b := SV.canon (g s)
    if a == b then none else some (s, a, b)

end Spec
end OFV
