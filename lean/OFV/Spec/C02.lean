/-
C02 — reference semantics of "equal within tolerance" and of the structural
predicates, written from the property statement, independently of the Model.

`a == b` / `a.isclose(b, tol)` must hold exactly when, for EVERY term `t`,
the coefficients of `t` in `a` and `b` agree within the tolerance:
  * both present:   |x - y| < tol            (absolute), or
                    |x - y| < tol · |x|  or  |x - y| < tol · |y|   (relative to the larger magnitude);
  * one side only:  |x| < tol;
  * absent in both: nothing to check.
All comparisons of (irrational) absolute values are expressed through squares.
Import-free; executable twins (`…B`) are what the driver evaluates as the oracle.
-/
import OFV.Core.GQ
import OFV.Core.Dict

namespace OFV
namespace Spec
namespace C02

abbrev Term := List (Nat × Nat)
abbrev Op := List (Term × GQ)

/-- `|x|²` -/
def nsq (x : GQ) : Rat := x.re * x.re + x.im * x.im

/-- `|x| < t` -/
def absLt (x : GQ) (t : Rat) : Bool := decide (0 < t ∧ nsq x < t * t)

/-- `|x - y| < tol · max(1, |x|, |y|)`, written as a disjunction -/
def relClose (tol : Rat) (x y : GQ) : Bool :=
  decide (0 < tol ∧ (nsq (x - y) < tol * tol ∨ nsq (x - y) < tol * tol * nsq x ∨
    nsq (x - y) < tol * tol * nsq y))

/-- agreement of the coefficient of one term -/
def coefClose (tol : Rat) : Option GQ → Option GQ → Bool
  | none, none => true
  | some x, none => absLt x tol
  | none, some y => absLt y tol
  | some x, some y => relClose tol x y

/-- THE statement: every term's coefficients agree within the tolerance. -/
def Isclose (tol : Rat) (a b : Op) : Prop :=
  ∀ t : Term, coefClose tol (Dict.get? a t) (Dict.get? b t) = true

/-- executable twin of `Isclose` (only stored keys can fail) -/
def iscloseB (tol : Rat) (a b : Op) : Bool :=
  (Dict.keys a ++ Dict.keys b).all fun t => coefClose tol (Dict.get? a t) (Dict.get? b t)

/-! ### Majorana `==`: the statement asks for a symmetric relation, relative to the
larger magnitude: `|x - y| ≤ atol + rtol · max(|x|, |y|)`. -/

/-- `sqrt n1 ≤ α + ρ · sqrt n2` for non-negative rationals -/
def sqrtLeAffine (n1 α ρ n2 : Rat) : Bool :=
  decide (n1 - α * α - ρ * ρ * n2 ≤ 0 ∨
    (n1 - α * α - ρ * ρ * n2) * (n1 - α * α - ρ * ρ * n2) ≤ 4 * α * α * ρ * ρ * n2)

def majClose (atol rtol : Rat) (x y : GQ) : Bool :=
  sqrtLeAffine (nsq (x - y)) atol rtol (nsq x) || sqrtLeAffine (nsq (x - y)) atol rtol (nsq y)

abbrev MTerm := List Nat
abbrev MOp := List (MTerm × GQ)

/-- `|x| ≤ t` -/
def absLe (x : GQ) (t : Rat) : Bool := decide (0 ≤ t ∧ nsq x ≤ t * t)

def majCoefClose (atol rtol : Rat) : Option GQ → Option GQ → Bool
  | none, none => true
  | some x, none => absLe x atol
  | none, some y => absLe y atol
  | some x, some y => majClose atol rtol x y

def MajEq (atol rtol : Rat) (a b : MOp) : Prop :=
  ∀ t : MTerm, majCoefClose atol rtol (Dict.get? a t) (Dict.get? b t) = true

def majEqB (atol rtol : Rat) (a b : MOp) : Bool :=
  (Dict.keys a ++ Dict.keys b).all fun t => majCoefClose atol rtol (Dict.get? a t) (Dict.get? b t)

/-! ### structural predicates (definitions over ALL pairs of positions) -/

/-- fermionic normal order of a product: no annihilator left of a creator, and among
equal ladder types the mode index strictly decreases (left `l`, right `r`) -/
def okF (l r : Nat × Nat) : Prop := (r.2 ≠ 0 → l.2 ≠ 0) ∧ (l.2 = r.2 → r.1 < l.1)

def NormalOrderedF (t : Term) : Prop := t.Pairwise okF

/-- bosonic normal order as stored by `BosonOperator` (factors sorted by mode index,
ascending): on every mode creators stand left of annihilators -/
def okB (l r : Nat × Nat) : Prop := l.1 ≤ r.1 ∧ (l.1 = r.1 → r.2 ≤ l.2)

def NormalOrderedB (t : Term) : Prop := t.Pairwise okB

instance (l r : Nat × Nat) : Decidable (okF l r) := by unfold okF; exact inferInstance
instance (l r : Nat × Nat) : Decidable (okB l r) := by unfold okB; exact inferInstance

def pairwiseB {α} (p : α → α → Bool) : List α → Bool
  | [] => true
  | x :: r => r.all (p x) && pairwiseB p r

def normalOrderedFB (t : Term) : Bool := pairwiseB (fun l r => decide (okF l r)) t
def normalOrderedBB (t : Term) : Bool := pairwiseB (fun l r => decide (okB l r)) t

/-- number of factors with the given action on modes of the given index parity -/
def cnt (t : Term) (act : Nat) : Nat := (t.filter fun f => f.2 == act).length
def cntSpin (t : Term) (act par : Nat) : Nat :=
  (t.filter fun f => f.2 == act && f.1 % 2 == par).length

/-- same number of creators and annihilators -/
def NumberConserving (t : Term) : Prop := cnt t 1 = cnt t 0

/-- up (even index) and down (odd index) particle numbers conserved separately -/
def SpinConserving (t : Term) : Prop :=
  cntSpin t 1 0 = cntSpin t 0 0 ∧ cntSpin t 1 1 = cntSpin t 0 1

def TwoBodyNumberConserving (checkSpin : Bool) (a : Op) : Prop :=
  ∀ e ∈ a, (e.1.length = 0 ∨ e.1.length = 2 ∨ e.1.length = 4) ∧ NumberConserving e.1 ∧
    (checkSpin = true → SpinConserving e.1)

def twoBodyNumberConservingB (checkSpin : Bool) (a : Op) : Bool :=
  a.all fun e => (e.1.length == 0 || e.1.length == 2 || e.1.length == 4) &&
    cnt e.1 1 == cnt e.1 0 &&
    (!checkSpin || (cntSpin e.1 1 0 == cntSpin e.1 0 0 && cntSpin e.1 1 1 == cntSpin e.1 0 1))

def bosonPreservingB (a : Op) : Bool := a.all fun e => cnt e.1 1 == cnt e.1 0

/-! ### tensor equality: every entry of every key within the absolute tolerance,
a missing key counting as the zero tensor -/

abbrev Tensors := List (List Nat × List GQ)

def entry (a : Tensors) (k : List Nat) (i : Nat) : GQ := ((Dict.get? a k).getD []).getD i 0

def TensorEq (tol : Rat) (na : Nat) (a : Tensors) (nb : Nat) (b : Tensors) : Prop :=
  na = nb ∧ 0 < tol ∧ ∀ (k : List Nat) (i : Nat), nsq (entry a k i - entry b k i) < tol * tol

def tensorEqB (tol : Rat) (na : Nat) (a : Tensors) (nb : Nat) (b : Tensors) : Bool :=
  na == nb && decide (0 < tol) &&
  (Dict.keys a ++ Dict.keys b).all fun k =>
    let n := max ((Dict.get? a k).getD []).length ((Dict.get? b k).getD []).length
    (List.range n).all fun i => decide (nsq (entry a k i - entry b k i) < tol * tol)

end C02
end Spec
end OFV
