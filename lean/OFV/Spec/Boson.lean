/-
Spec for bosonic ladder and quadrature operators: the faithful polynomial
(Bargmann / Schrödinger) representation of the Weyl algebra over a field of
characteristic 0.  States are monomials `x^e` (exponent vectors, trailing zeros
trimmed).  `b†_j = x_j ·`, `b_j = ∂/∂x_j`;  `q_j = x_j ·`, `p_j = -iħ ∂/∂x_j`.
Then `[b_i, b†_j] = δ_ij` and `[q_i, p_j] = iħ δ_ij`.  Import-free.
-/
import OFV.Core.GQ
import OFV.Core.Dict

namespace OFV
namespace Spec

abbrev Mono := List Nat

/-- drop trailing zeros (canonical exponent vectors) -/
def trimZeros : Mono → Mono
  | [] => []
  | a :: r => if trimZeros r = [] ∧ a = 0 then [] else a :: trimZeros r

def expGet (e : Mono) (j : Nat) : Nat := e.getD j 0

def expSet (e : Mono) (j v : Nat) : Mono :=
  let e' := if j < e.length then e else e ++ List.replicate (j + 1 - e.length) 0
  trimZeros (e'.set j v)

/-- `x_j · x^e` -/
def raiseX (j : Nat) (e : Mono) : Mono := expSet e j (expGet e j + 1)

/-- `∂_j x^e = e_j x^{e - 1_j}`: `none` when `e_j = 0` -/
def lowerX (j : Nat) (e : Mono) : Option (Nat × Mono) :=
  let k := expGet e j
  if k = 0 then none else some (k, expSet e j (k - 1))

abbrev BV := List (Mono × GQ)

def BV.addEntry (v : BV) (e : Mono) (c : GQ) : BV :=
  match v with
  | [] => [(e, c)]
  | (e', c') :: r => if e' = e then (e', c' + c) :: r else (e', c') :: BV.addEntry r e c

/-- boson factor `(j, 1)` = `b†_j`, `(j, 0)` = `b_j` on a monomial -/
def actB (j a : Nat) (e : Mono) : Option (GQ × Mono) :=
  if a == 1 then some (1, raiseX j e)
  else match lowerX j e with
    | none => none
    | some (k, e') => some (GQ.ofInt k, e')

/-- quadrature factor `(j, 0)` = `q_j`, `(j, 1)` = `p_j` on a monomial -/
def actQuad (hbar : GQ) (j a : Nat) (e : Mono) : Option (GQ × Mono) :=
  if a == 0 then some (1, raiseX j e)
  else match lowerX j e with
    | none => none
    | some (k, e') => some ((-GQ.I) * hbar * GQ.ofInt k, e')

def actTermWith (act : Nat → Nat → Mono → Option (GQ × Mono)) (t : List (Nat × Nat)) (e : Mono) :
    Option (GQ × Mono) :=
  t.foldr (fun f acc => match acc with
    | none => none
    | some (c, e') => match act f.1 f.2 e' with
      | none => none
      | some (c', e'') => some (c' * c, e'')) (some (1, e))

end Spec
end OFV
