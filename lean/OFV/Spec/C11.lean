/-
C11 — reference predicates for the *structural* part of the property, evaluated on the
implementation's own outputs (independent of the Model):

  "Every rotation acts on adjacent indices, rotations grouped in one layer act on disjoint
   index pairs, and the number of layers respects the stated depth."

An elementary operation is given by the list of mode indices it touches: a Givens rotation
`(i, j, θ, φ)` touches `[i, j]`, the particle-hole transformation `'pht'` touches `[n - 1]`.
Import-free.
-/
namespace OFV
namespace Spec
namespace C11

/-- a rotation `[i, j]` acts on adjacent valid indices; `'pht'` (`[n-1]`) is the last mode -/
def opOk (n : Nat) (op : List Nat) : Bool :=
  match op with
  | [i, j] => j == i + 1 && j < n
  | [q] => q + 1 == n
  | _ => false

/-- no index is touched twice within a layer -/
def layerDisjoint (layer : List (List Nat)) : Bool :=
  let all := layer.flatten
  all.eraseDups.length == all.length

def layerOk (n : Nat) (layer : List (List Nat)) : Bool :=
  !layer.isEmpty && layer.all (opOk n) && layerDisjoint layer

/-- the structural statement of C11 for one returned decomposition -/
def layersOk (n depth : Nat) (layers : List (List (List Nat))) : Bool :=
  layers.length ≤ depth && layers.all (layerOk n)

/-- first layer (index) violating the statement, or `layers.length` when the depth bound fails -/
def firstBad (n depth : Nat) (layers : List (List (List Nat))) : Option Nat :=
  if layers.length > depth then some layers.length
  else (List.range layers.length).find? fun k => !(layerOk n (layers.getD k []))

end C11
end Spec
end OFV
