/-
C13 — Spec: the lattice graph of the Hubbard-type generators, written independently of
the code.  Sites of an `x × y` grid are numbered row by row (`site = col + row * x`).
Two sites are joined by a (nearest-neighbour) edge when they are at distance 1 along one
dimension and equal along the other; a dimension wraps iff the lattice is periodic and the
dimension has length > 2 (a periodic dimension of length 2 contributes the single edge,
length 1 none).  Diagonal edges: distance 1 along both dimensions.  Edges are unordered:
they are listed as pairs `(a, b)` with `a < b`.  Import-free.
-/
namespace OFV
namespace Spec
namespace C13

/-- coordinates `u v` of a dimension of length `n` are at distance one -/
def dist1 (n : Nat) (p : Bool) (u v : Nat) : Bool :=
  u + 1 == v || v + 1 == u || (p && decide (2 < n) && (u + 1 == v + n || v + 1 == u + n))

def col (x s : Nat) : Nat := s % x
def row (x s : Nat) : Nat := s / x

def adjH (x _y : Nat) (p : Bool) (a b : Nat) : Bool :=
  row x a == row x b && dist1 x p (col x a) (col x b)

def adjV (x y : Nat) (p : Bool) (a b : Nat) : Bool :=
  col x a == col x b && dist1 y p (row x a) (row x b)

/-- nearest neighbours -/
def adjNN (x y : Nat) (p : Bool) (a b : Nat) : Bool := adjH x y p a b || adjV x y p a b

/-- diagonal neighbours -/
def adjD (x y : Nat) (p : Bool) (a b : Nat) : Bool :=
  dist1 x p (col x a) (col x b) && dist1 y p (row x a) (row x b)

/-- all pairs `(a, b)` with `a < b < n` -/
def pairs (n : Nat) : List (Nat × Nat) :=
  (List.range n).flatMap fun b => (List.range b).map fun a => (a, b)

/-- the edge set of an adjacency relation on the `x × y` lattice -/
def edges (adj : Nat → Nat → Bool → Nat → Nat → Bool) (x y : Nat) (p : Bool) : List (Nat × Nat) :=
  (pairs (x * y)).filter fun e => adj x y p e.1 e.2

/-- unordered pair as `(min, max)` -/
def norm (e : Nat × Nat) : Nat × Nat := if e.1 ≤ e.2 then e else (e.2, e.1)

end C13
end Spec
end OFV
