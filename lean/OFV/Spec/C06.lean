/-
C06 — reference semantics: the matrix of an operator in the big-endian computational basis.
Basis state with mask `s` (bit `j` = qubit / mode `j`) has matrix index
`beIndex n s = Σ_j bit_j(s) · 2^(n-1-j)` (qubit 0 is the most significant bit).
Column `beIndex n s` of the matrix is the image `A|s⟩` computed by `Spec.applyOp`.  Import-free.
-/
import OFV.Spec.Expr

namespace OFV
namespace Spec
namespace C06

/-- big-endian matrix index of the basis state with mask `s` on `n` qubits -/
def beIndex : Nat → Nat → Nat
  | 0, _ => 0
  | n + 1, s => (if s.testBit 0 then 2 ^ n else 0) + beIndex n (s / 2)

/-- the dense matrix `(row, col, value)` (nonzero entries, column by column) of an operator -/
def specMatrix (alg : Alg) (n : Nat) (A : List (List (Nat × Nat) × GQ)) : List (Nat × Nat × GQ) :=
  (List.range (2 ^ n)).flatMap fun s =>
    (GV.nonzero (applyOp alg A [s])).map fun (e, c) => (beIndex n (maskOf e), beIndex n s, c)

/-- `M x` for the Spec matrix: `(M x)[beIndex t] = Σ_s ⟨t|A|s⟩ x[beIndex s]` -/
def specMatvec (alg : Alg) (n : Nat) (A : List (List (Nat × Nat) × GQ)) (x : List GQ) : List GQ :=
  let img : GV := (List.range (2 ^ n)).foldl (fun acc s =>
    GV.addAll acc (GV.scale (x.getD (beIndex n s) 0) (applyOp alg A [s]))) []
  let byIndex := img.map fun (e, c) => (beIndex n (maskOf e), c)
  (List.range (2 ^ n)).map fun r => byIndex.foldl (fun acc (i, c) => if i = r then acc + c else acc) 0

end C06
end Spec
end OFV
