/-
C17 — reference statement for the truncation of `low_rank_two_body_decomposition`:
keeping the first `L` terms discards the weight `Σ_{l ≥ L} w_l`; the reported truncation value must
be that number, must not exceed the threshold, and `L` must be the smallest rank ≥ 1 with that
property.  Import-free.
-/
namespace OFV
namespace Spec
namespace C17

/-- weight discarded when only the first `L` terms are kept -/
def discarded (ws : List Rat) (L : Nat) : Rat := (ws.drop L).sum

/-- `L` is the least rank `≥ 1` whose discarded weight is within the threshold -/
def minimalRank (ws : List Rat) (thr : Rat) (L : Nat) : Bool :=
  decide (1 ≤ L) && decide (L ≤ ws.length) && decide (discarded ws L ≤ thr) &&
  (List.range L).all fun L' => L' = 0 || decide (thr < discarded ws L')

end C17
end Spec
end OFV
