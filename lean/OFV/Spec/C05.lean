/-
Spec for C05: the Bravyi-Kitaev encodings.  Qubit `k` of the encoded register stores the parity of
the occupations of an interval of modes `[lo k, k]`:
* `bravyi_kitaev` (Fenwick tree on 1-based indices): `lo k = k + 1 - lowbit (k + 1)` where `lowbit`
  is the largest power of two dividing its argument (defined arithmetically here, no bit tricks);
* `bravyi_kitaev_tree` (recursive midpoint construction on `n` qubits): `lo` is found by descending
  the bisection.
A QubitOperator `Q` is a valid image of the fermionic operator `A` on `n` qubits iff
`Q |enc s⟩ = enc (A |s⟩)` for every occupation mask `s < 2^n`, phases included.
Independent of the Model.  Import-free.
-/
import OFV.Spec.Expr

namespace OFV
namespace Spec
namespace C05

abbrev Op := List (List (Nat × Nat) × GQ)

/-- largest power of two dividing `i` (`i > 0`); fuel = `i` -/
def lowbitF : Nat → Nat → Nat
  | 0, _ => 1
  | fuel + 1, i => if i % 2 = 1 then 1 else if i = 0 then 1 else 2 * lowbitF fuel (i / 2)

def lowbit (i : Nat) : Nat := lowbitF i i

/-- left end of the interval stored on qubit `k`, Fenwick variant -/
def loBK (k : Nat) : Nat := k + 1 - lowbit (k + 1)

/-- left end of the interval stored on qubit `k` in the bisection tree on `[left, right]` (root `right`) -/
def loTreeF : Nat → Nat → Nat → Nat → Nat
  | 0, left, _, _ => left
  | fuel + 1, left, right, k =>
    if k ≥ right ∨ left ≥ right then left
    else
      let p := (left + right) / 2
      if k ≤ p then loTreeF fuel left p k else loTreeF fuel (p + 1) right k

def loTree (n k : Nat) : Nat := loTreeF (n + 1) 0 (n - 1) k

inductive Variant | bk | tree
deriving DecidableEq, Repr

def lo (v : Variant) (n k : Nat) : Nat :=
  match v with
  | .bk => loBK k
  | .tree => loTree n k

/-- parity of the bits of `s` at positions `lo ≤ l ≤ k` -/
def parityRange (s lo k : Nat) : Bool :=
  (List.range' lo (k + 1 - lo)).foldl (fun acc l => acc != s.testBit l) false

/-- the encoded basis state: bit `k < n` is the parity of `s` on `[lo k, k]`; bits `≥ n` are kept -/
def enc (v : Variant) (n s : Nat) : Nat :=
  (List.range n).foldl (fun e k => if parityRange s (lo v n k) k then e ||| (1 <<< k) else e)
    ((s >>> n) <<< n)

/-- what the three index sets of mode `j` must be, in terms of the stored intervals alone:
* the intervals of `P` tile `[0, j)` (checked by walking down from `j`: every step must start where
  the previous interval ended, so each `k ∈ P` is used exactly once),
* `O` is `j` together with the qubits whose intervals tile `[lo j, j)`,
* `U` is exactly the set of qubits `k`, `j < k < n`, whose interval contains `j`. -/
def tiles (v : Variant) (n : Nat) (S : List Nat) : Nat → Nat → Nat → Bool
  | 0, from_, upto => from_ == upto
  | fuel + 1, from_, upto =>
    if from_ == upto then true
    else upto > 0 && S.contains (upto - 1) && lo v n (upto - 1) ≥ from_
         && tiles v n S fuel from_ (lo v n (upto - 1))

def tileCount (v : Variant) (n : Nat) : Nat → Nat → Nat → Nat
  | 0, _, _ => 0
  | fuel + 1, from_, upto => if from_ ≥ upto then 0 else 1 + tileCount v n fuel from_ (lo v n (upto - 1))

def setsCheck (v : Variant) (n j : Nat) (P O U : List Nat) : Bool :=
  tiles v n P (j + 1) 0 j && P.length == tileCount v n (j + 1) 0 j && P.eraseDups.length == P.length
  && O.contains j && tiles v n O (j + 1) (lo v n j) j
  && O.length == 1 + tileCount v n (j + 1) (lo v n j) j && O.eraseDups.length == O.length
  && U.eraseDups.length == U.length
  && U.all (fun k => j < k && k < n && lo v n k ≤ j)
  && (List.range n).all (fun k => !(j < k && lo v n k ≤ j) || U.contains k)

/-- first occupation mask `s < 2^n` on which `Q |enc s⟩ ≠ enc (A |s⟩)` -/
def bkCheck (v : Variant) (alg : Alg) (n : Nat) (A Q : Op) : Option (Nat × Nat × GV × GV) :=
  (List.range (2 ^ n)).findSome? fun s =>
    let a := (applyOp alg A [s]).map fun (st, c) => ([enc v n (maskOf st)], c)
    let b := applyOp .qubit Q [enc v n s]
    if GV.eqv a b then none else some (s, enc v n s, GV.nonzero a, GV.nonzero b)

end C05
end Spec
end OFV
