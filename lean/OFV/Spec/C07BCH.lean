/-
C07 — reference semantics for the BCH statement: the free associative ℚ-algebra on two
generators X, Y truncated above degree `k` (= the free nilpotent algebra of class `k`).
A homogeneous element of degree `d` is the dense list of its `2^d` word coefficients
(word `w_1 … w_d`, `X = 0`, `Y = 1`, index = the big-endian binary number).
`exp X · exp Y` has coefficient `1/(a! b!)` on `X^a Y^b` and 0 elsewhere.  Import-free.
-/
namespace OFV
namespace Spec
namespace BCH

abbrev Hom := List Rat          -- homogeneous part, length 2^d
abbrev Graded := List Hom       -- index d = degree d part, d = 0 … k

def zipAdd : Hom → Hom → Hom
  | a :: r, b :: s => (a + b) :: zipAdd r s
  | [], s => s
  | r, [] => r

def hscale (c : Rat) (a : Hom) : Hom := a.map (c * ·)

/-- product of homogeneous elements: `(u ⊗ v)[i * 2^e + l] = u[i] * v[l]` -/
def hmul (u v : Hom) : Hom := u.flatMap fun a => v.map (a * ·)

/-- interleave: word `w·g` has index `2 * idx(w) + g` -/
def appendGen (g : Bool) (w : Hom) : Hom :=
  w.flatMap fun a => if g then [0, a] else [a, 0]

/-- word `g·w` has index `g * 2^d + idx(w)` -/
def prependGen (g : Bool) (w : Hom) : Hom :=
  if g then w.map (fun _ => (0 : Rat)) ++ w else w ++ w.map (fun _ => (0 : Rat))

/-- `[G, W] = G W - W G` for a generator `G` and homogeneous `W` -/
def bracketGen (g : Bool) (w : Hom) : Hom := zipAdd (prependGen g w) (hscale (-1) (appendGen g w))

/-- Dynkin-style nested commutator `'010…' ↦ [X, [Y, [X, …]]]` as a homogeneous element -/
def nested : List Bool → Hom
  | [] => [1]
  | [g] => if g then [0, 1] else [1, 0]
  | g :: r => bracketGen g (nested r)

def gzero (k : Nat) : Graded := (List.range (k + 1)).map fun d => List.replicate (2 ^ d) 0

def gadd : Graded → Graded → Graded
  | a :: r, b :: s => zipAdd a b :: gadd r s
  | [], s => s
  | r, [] => r

def gscale (c : Rat) (a : Graded) : Graded := a.map (hscale c)

/-- put a homogeneous element of degree `d ≤ k` into a graded element -/
def ginj (k : Nat) (d : Nat) (h : Hom) : Graded :=
  (List.range (k + 1)).map fun e => if e = d then h else List.replicate (2 ^ e) 0

/-- truncated product: degree `d` part = Σ_{i + j = d} a_i ⊗ b_j -/
def gmul (k : Nat) (a b : Graded) : Graded :=
  (List.range (k + 1)).map fun d =>
    (List.range (d + 1)).foldl (fun acc i =>
      zipAdd acc (hmul (a.getD i []) (b.getD (d - i) []))) (List.replicate (2 ^ d) 0)

def gone (k : Nat) : Graded := ginj k 0 [1]

def factR : Nat → Rat
  | 0 => 1
  | n + 1 => (n + 1 : Nat) * factR n

/-- `exp z = Σ_{m ≤ k} z^m / m!` (exact when `z` has no constant part) -/
def gexp (k : Nat) (z : Graded) : Graded :=
  let step := fun (st : Graded × Graded) (m : Nat) =>
    let p := gmul k st.1 z            -- z^(m+1)
    (p, gadd st.2 (gscale (1 / factR (m + 1)) p))
  ((List.range k).foldl step (gone k, gone k)).2

def countLeadingX : List Bool → Nat
  | false :: r => countLeadingX r + 1
  | _ => 0

def wordOf : Nat → Nat → List Bool      -- d, index ↦ word (big-endian)
  | 0, _ => []
  | d + 1, i => (i / 2 ^ d % 2 == 1) :: wordOf d (i % 2 ^ d)

/-- `exp X · exp Y` truncated: coefficient `1/(a! b!)` on `X^a Y^b` -/
def expXexpY (k : Nat) : Graded :=
  (List.range (k + 1)).map fun d =>
    (List.range (2 ^ d)).map fun i =>
      let w := wordOf d i
      let a := countLeadingX w
      if (w.drop a).all (· == true) then 1 / (factR a * factR (d - a)) else 0

/-- the BCH polynomial `Σ coeff · nested(term)` for the given `(term, coeff)` list -/
def bchPoly (k : Nat) (terms : List (List Bool × Rat)) : Graded :=
  terms.foldl (fun acc tc =>
    if tc.1.length ≤ k then gadd acc (ginj k tc.1.length (hscale tc.2 (nested tc.1))) else acc) (gzero k)

/-- does `exp(Σ coeff · nested commutator) = exp X exp Y` hold modulo degree `> k`? -/
def check (k : Nat) (terms : List (List Bool × Rat)) : Bool :=
  gexp k (bchPoly k terms) == expXexpY k

end BCH
end Spec
end OFV
