/-
JSON glue of the line protocol (driver side).  Not part of any theorem:
belongs to the trusted tie (parser / printer).
-/
import Lean.Data.Json
import OFV.Core.GQ

namespace OFV
open Lean

abbrev Factor := Nat × Nat
abbrev Term := List Factor
/-- insertion-ordered association list (Python dict) -/
abbrev Op := List (Term × GQ)

namespace J

def err {α} (s : String) : Except String α := .error s

def field (j : Json) (k : String) : Except String Json :=
  match j.getObjVal? k with
  | .ok v => .ok v
  | .error _ => .error s!"missing field {k}"

def fieldD (j : Json) (k : String) (d : Json) : Json :=
  match j.getObjVal? k with
  | .ok v => v
  | .error _ => d

def int (j : Json) : Except String Int :=
  match j.getInt? with
  | .ok v => .ok v
  | .error _ => .error s!"expected int, got {j.compress}"

def nat (j : Json) : Except String Nat := do
  let i ← int j
  if i < 0 then .error s!"expected nat, got {i}" else .ok i.toNat

def bool (j : Json) : Except String Bool :=
  match j with
  | .bool b => .ok b
  | _ => match j.getInt? with
    | .ok v => .ok (v != 0)
    | .error _ => .error s!"expected bool, got {j.compress}"

def str (j : Json) : Except String String :=
  match j.getStr? with
  | .ok v => .ok v
  | .error _ => .error s!"expected string, got {j.compress}"

def arr (j : Json) : Except String (List Json) :=
  match j.getArr? with
  | .ok v => .ok v.toList
  | .error _ => .error s!"expected array, got {j.compress}"

def listOf {α} (f : Json → Except String α) (j : Json) : Except String (List α) := do
  let a ← arr j
  a.mapM f

def natList := listOf nat
def intList := listOf int

def rat (j : Json) : Except String Rat := do
  match j with
  | .arr a =>
    if a.size == 2 then
      let n ← int a[0]!
      let d ← nat a[1]!
      if d == 0 then .error "zero denominator" else .ok (mkRat n d)
    else .error s!"expected [num,den], got {j.compress}"
  | _ => do
    let n ← int j
    .ok (n : Rat)

def gq (j : Json) : Except String GQ := do
  match j with
  | .arr a =>
    if a.size == 4 then
      let nr ← int a[0]!; let dr ← nat a[1]!
      let ni ← int a[2]!; let di ← nat a[3]!
      if dr == 0 || di == 0 then .error "zero denominator"
      else .ok ⟨mkRat nr dr, mkRat ni di⟩
    else if a.size == 2 then
      let r ← rat j
      .ok ⟨r, 0⟩
    else .error s!"expected [nr,dr,ni,di], got {j.compress}"
  | _ => do
    let n ← int j
    .ok ⟨(n : Rat), 0⟩

def factor (j : Json) : Except String Factor := do
  let a ← arr j
  match a with
  | [i, k] => do .ok (← nat i, ← nat k)
  | _ => .error s!"bad factor {j.compress}"

def term (j : Json) : Except String Term := listOf factor j

def op (j : Json) : Except String Op := do
  let a ← arr j
  a.mapM fun e => do
    let p ← arr e
    match p with
    | [t, c] => do .ok (← term t, ← gq c)
    | _ => .error s!"bad op entry {e.compress}"

def ofRat (r : Rat) : Json := Json.arr #[Json.num (JsonNumber.fromInt r.num), Json.num (JsonNumber.fromNat r.den)]

def ofGQ (c : GQ) : Json :=
  Json.arr #[Json.num (JsonNumber.fromInt c.re.num), Json.num (JsonNumber.fromNat c.re.den),
             Json.num (JsonNumber.fromInt c.im.num), Json.num (JsonNumber.fromNat c.im.den)]

def ofNat (n : Nat) : Json := Json.num (JsonNumber.fromNat n)
def ofInt (n : Int) : Json := Json.num (JsonNumber.fromInt n)
def ofNatList (l : List Nat) : Json := Json.arr (l.map ofNat).toArray
def ofIntList (l : List Int) : Json := Json.arr (l.map ofInt).toArray
def ofList {α} (f : α → Json) (l : List α) : Json := Json.arr (l.map f).toArray

def ofFactor (f : Factor) : Json := Json.arr #[ofNat f.1, ofNat f.2]
def ofTerm (t : Term) : Json := Json.arr (t.map ofFactor).toArray
def ofOp (o : Op) : Json := Json.arr (o.map fun (t, c) => Json.arr #[ofTerm t, ofGQ c]).toArray

def obj (kvs : List (String × Json)) : Json := Json.mkObj kvs

end J
end OFV
