/-
Gaussian rationals: the coefficient type the executable Model and Spec run on.
Import-free (Lean core only) so that the driver links as a native executable.
Python `int/float/complex` coefficients are represented exactly (the harness
only generates dyadic values, on which IEEE-754 double arithmetic is exact).
-/
namespace OFV

structure GQ where
  re : Rat
  im : Rat
deriving DecidableEq, Repr, Inhabited

namespace GQ

instance : OfNat GQ 0 := ⟨⟨0, 0⟩⟩
instance : OfNat GQ 1 := ⟨⟨1, 0⟩⟩

def I : GQ := ⟨0, 1⟩
def ofRat (r : Rat) : GQ := ⟨r, 0⟩
def ofInt (z : Int) : GQ := ⟨z, 0⟩

instance : Add GQ := ⟨fun a b => ⟨a.re + b.re, a.im + b.im⟩⟩
instance : Sub GQ := ⟨fun a b => ⟨a.re - b.re, a.im - b.im⟩⟩
instance : Neg GQ := ⟨fun a => ⟨-a.re, -a.im⟩⟩
instance : Mul GQ := ⟨fun a b => ⟨a.re * b.re - a.im * b.im, a.re * b.im + a.im * b.re⟩⟩

def conj (a : GQ) : GQ := ⟨a.re, -a.im⟩
def smul (r : Rat) (a : GQ) : GQ := ⟨r * a.re, r * a.im⟩
def normSq (a : GQ) : Rat := a.re * a.re + a.im * a.im

/-- `i ^ k` for `k` taken mod 4. -/
def ipow (k : Nat) : GQ :=
  match k % 4 with
  | 0 => 1
  | 1 => I
  | 2 => -1
  | _ => -I

/-- `(-1)^k`. -/
def sgn (k : Nat) : GQ := if k % 2 == 0 then 1 else -1

/-- Python `abs(c) < tol`, exact (`|c|^2 < tol^2`, `tol ≥ 0`). -/
def isSmall (tol : Rat) (a : GQ) : Bool := a.normSq < tol * tol

/-- `EQ_TOLERANCE = 1e-8` default; the live value is re-extracted into
`OFV.Generated.Tables` and compared on every run. -/
def eqTol : Rat := mkRat 1 100000000

@[simp] theorem add_re (a b : GQ) : (a + b).re = a.re + b.re := rfl
@[simp] theorem add_im (a b : GQ) : (a + b).im = a.im + b.im := rfl
@[simp] theorem sub_re (a b : GQ) : (a - b).re = a.re - b.re := rfl
@[simp] theorem sub_im (a b : GQ) : (a - b).im = a.im - b.im := rfl
@[simp] theorem neg_re (a : GQ) : (-a).re = -a.re := rfl
@[simp] theorem neg_im (a : GQ) : (-a).im = -a.im := rfl
@[simp] theorem mul_re (a b : GQ) : (a * b).re = a.re * b.re - a.im * b.im := rfl
@[simp] theorem mul_im (a b : GQ) : (a * b).im = a.re * b.im + a.im * b.re := rfl
@[simp] theorem zero_re : (0 : GQ).re = 0 := rfl
@[simp] theorem zero_im : (0 : GQ).im = 0 := rfl
@[simp] theorem one_re : (1 : GQ).re = 1 := rfl
@[simp] theorem one_im : (1 : GQ).im = 0 := rfl
@[simp] theorem I_re : I.re = 0 := rfl
@[simp] theorem I_im : I.im = 1 := rfl

theorem ext {a b : GQ} (h1 : a.re = b.re) (h2 : a.im = b.im) : a = b := by
  cases a; cases b; simp_all

end GQ
end OFV
