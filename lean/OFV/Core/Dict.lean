/-
Insertion-ordered association lists: the Model of a Python `dict`.
`set` on an existing key keeps its position; a new key is appended;
`erase` removes the entry.  Import-free.
-/
namespace OFV

namespace Dict
variable {κ : Type} {α : Type} [DecidableEq κ]

def get? (d : List (κ × α)) (k : κ) : Option α :=
  match d with
  | [] => none
  | (k', v) :: r => if k' = k then some v else get? r k

def getD (d : List (κ × α)) (k : κ) (dflt : α) : α := (get? d k).getD dflt

def contains (d : List (κ × α)) (k : κ) : Bool := (get? d k).isSome

def set (d : List (κ × α)) (k : κ) (v : α) : List (κ × α) :=
  match d with
  | [] => [(k, v)]
  | (k', v') :: r => if k' = k then (k', v) :: r else (k', v') :: set r k v

def erase (d : List (κ × α)) (k : κ) : List (κ × α) :=
  match d with
  | [] => []
  | (k', v') :: r => if k' = k then r else (k', v') :: erase r k

def keys (d : List (κ × α)) : List κ := d.map (·.1)

/-- keys are pairwise distinct -/
def WF (d : List (κ × α)) : Prop := (keys d).Nodup

end Dict
end OFV
