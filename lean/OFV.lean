-- Root of the `OFV` library: Model, Spec, proofs and property theorems.
import OFV.Core.GQ
import OFV.Core.Dict
import OFV.Core.Json
import OFV.Generated.Tables
import OFV.Spec.Basic
import OFV.Spec.Boson
import OFV.Spec.Expr
import OFV.Model.Symbolic
import OFV.Model.Program
import OFV.Handlers.Common
import OFV.Handlers.C01
