/- `ofv-driver`: one JSON request per input line, one JSON answer per output line. -/
import OFV.Handlers.Common
import OFV.Handlers.C01

open Lean OFV

def handlers : List (String → Json → Option (Except String Json)) :=
  [Handlers.handle, Handlers.C01.handle]

def answer (line : String) : String :=
  match Json.parse line with
  | .error e => (J.obj [("fatal", Json.str s!"parse: {e}")]).compress
  | .ok j =>
    match j.getObjVal? "op" with
    | .ok (.str op) =>
      match (handlers.findSome? (fun h => h op j) : Option (Except String Json)) with
      | some (.ok r) => (J.obj [("r", r)]).compress
      | some (.error e) => (J.obj [("fatal", Json.str e)]).compress
      | none => (J.obj [("fatal", Json.str s!"unknown op {op}")]).compress
    | _ => (J.obj [("fatal", Json.str "no op")]).compress

partial def loop (h : IO.FS.Stream) (out : IO.FS.Stream) : IO Unit := do
  let line ← h.getLine
  if line.isEmpty then return ()
  let l := line.trimAscii.toString
  if l.isEmpty then loop h out else
  out.putStrLn (answer l)
  loop h out

def main : IO Unit := do
  let out ← IO.getStdout
  loop (← IO.getStdin) out
  out.flush
