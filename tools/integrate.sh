#!/bin/bash
# tools/integrate.sh <agent letter>: merge the agent clone's commits, regenerate the generated files.
set -e
a=$1
cd /verif
git fetch -q /tmp/w/$a/verif main:agent$a -f
if ! git merge --no-commit --no-ff agent$a >/tmp/merge_$a.log 2>&1; then
  for f in MANIFEST.json known_findings.json tools/fingerprint_targets.json fingerprints.json lean/Driver.lean lean/OFV.lean lean/OFV/Generated/Tables.lean; do
    git checkout --ours -- $f 2>/dev/null || true
    git add $f 2>/dev/null || true
  done
fi
# property files are owned by the agents: on conflict take the agent's version
for f in $(git diff --name-only --diff-filter=U); do
  echo "conflict in $f: taking agent version"
  git checkout --theirs -- "$f" && git add "$f"
done
python3 tools/gen.py
/venv/bin/python tools/extract.py
/venv/bin/python tools/fingerprint.py --update
git add -A
git status --short | grep -v "^A " | head -20
