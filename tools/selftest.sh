#!/bin/bash
# tools/selftest.sh Cxx [seeds...]: run the quick check with several seeds on the current tree,
# validate the evidence file against the schema, report timings.  Exit != 0 if anything is off.
pid=$1; shift; seeds=${@:-0 1 2 3}
cd "$(dirname "$0")/.."
rc=0
for s in $seeds; do
  t0=$(date +%s)
  out=$(VERIF_SEED=$s ./check $pid quick 2>&1); e=$?
  t1=$(date +%s)
  echo "$out" | tail -2 | sed "s/^/[seed $s, $((t1-t0))s, exit $e] /"
  [ $e -ne 0 ] && rc=1
  /venv/bin/python - <<PY || rc=1
import json, jsonschema, sys
ev = json.load(open('evidence/$pid.json'))
jsonschema.validate(ev, json.load(open('/root/.vp/EVIDENCE.schema.json')))
c = ev['coverage']
assert ev['seed'] == $s and ev['tier'] == 'quick' and ev['property_id'] == '$pid'
assert c['obligations'] == c['discharged'] >= 1, (c['obligations'], c['discharged'])
assert c['evaluations'] >= 1 and c['distinct_nontrivial'] >= 2 and c['samples']
PY
done
exit $rc
