#!/usr/bin/env python3
"""Regenerates the machine-derived part of DESIGN.md (everything after the marker line):
per-property as-built summary (claim, theorems, open statements, known findings) and the table of
seeded changes with the check that catches each.  Hand-written sections above the marker are kept."""
import json, os, re, glob
HERE = os.path.dirname(os.path.abspath(__file__))
V = os.path.normpath(os.path.join(HERE, '..'))
MARK = '<!-- GENERATED BELOW: tools/gen_design.py -->'


def theorems(pid):
    p = os.path.join(V, 'lean', 'OFV', 'Properties', pid + '.lean')
    if not os.path.exists(p):
        return []
    return re.findall(r'^theorem\s+(\S+)', open(p).read(), flags=re.M)


def harness_list(pid, name):
    p = os.path.join(V, 'harness', pid.lower() + '.py')
    if not os.path.exists(p):
        return []
    src = open(p).read()
    m = re.search(r'^%s\s*=\s*\[(.*?)^\]' % name, src, flags=re.M | re.S)
    if not m:
        return []
    try:
        return list(eval('[' + m.group(1) + ']'))
    except Exception:
        return [l.strip().strip(',').strip('\'"') for l in m.group(1).split('\n') if l.strip()]


def main():
    out = [MARK, '',
           '## 10. As built, per property (generated from props/, lean/OFV/Properties/, harness/, seeded/)', '']
    props = [json.loads(l) for l in open(os.path.join(V, 'properties.jsonl'))]
    for p in props:
        pid = p['id']
        pf = os.path.join(V, 'props', pid + '.json')
        r = json.load(open(pf)) if os.path.exists(pf) else {}
        th = theorems(pid)
        out.append('### %s — %s' % (pid, p['title']))
        out.append('')
        out.append('*Claim.* ' + r.get('text', '(not claimed)'))
        out.append('')
        out.append('*Trusted / assumed.* ' + r.get('note', ''))
        out.append('')
        out.append('*Obligations (%d theorems, `lean/OFV/Properties/%s.lean`).* ' % (len(th), pid) + ', '.join('`%s`' % t for t in th))
        out.append('')
        op = harness_list(pid, 'OPEN_STATEMENTS')
        if op:
            out.append('*Open statements (not proved; covered by correspondence / oracle only).*')
            out += ['- ' + str(o) for o in op]
            out.append('')
        kf = r.get('known_findings', [])
        if kf:
            out.append('*Known findings (genuine defects left in /repo; the check prints KNOWN-FINDING and exits 0).*')
            out += ['- `%s`: %s' % (k['id'], k['what']) for k in kf]
            out.append('')
    out += ['## 11. Seeded changes (independent sub-agents, property text only) and what catches them', '',
            'Each change was produced by a fresh sub-agent that saw only the property text and its own worktree; the',
            'integrator confirmed that the demo passes on the unchanged tree and fails with the patch, and ran the',
            'registered quick check with the patch applied (scratch worktree, `OFV_REPO`).  `MISSED` entries were',
            'reported to the check\'s builder as a gap description; the later `caught` status is from the re-run.', '',
            '| seeded change | property | needs | quick check result | caught by (replay) |', '|---|---|---|---|---|']
    for d in sorted(glob.glob(os.path.join(V, 'seeded', '*'))):
        mf = os.path.join(d, 'meta.json')
        if not os.path.exists(mf):
            continue
        m = json.load(open(mf))
        c = m.get('confirmed_by_integrator', {})
        chk = c.get('checks_with_patch') or {}
        res, what = [], []
        if isinstance(chk, dict) and chk:
            for k, v in chk.items():
                viol = [l for l in v.get('lines', []) if l.startswith('VIOLATION')]
                res.append('%s: %s' % (k, 'VIOLATION' + (' (no-failing-input-found)' if viol and 'no-failing-input-found' in viol[0] else '') if v.get('exit') == 1 else 'exit %s — MISSED' % v.get('exit')))
                if v.get('replay_what'):
                    what.append(v['replay_what'][:160])
        else:
            res.append(str(c.get('check', ''))[:200])
            what.append(str(c.get('caught_by', ''))[:160])
        if m.get('obsolete'):
            res = ['superseded: ' + str(m['obsolete'])[:400]]
            what = []
        needs = str(m.get('needs', ''))[:260].replace('|', '/').replace('\n', ' ')
        out.append('| `%s` | %s | %s | %s | %s |' % (os.path.basename(d), m.get('property', ''), needs,
                                                 '; '.join(res).replace('|', '/'), '; '.join(what).replace('|', '/').replace('\n', ' ')))
    out.append('')
    out += ['## 12. Repairs made to /repo (generated from props/fixed.json)', '']
    for line in json.load(open(os.path.join(V, 'props', 'fixed.json'))):
        out.append('- `' + line.replace('`', "'") + '`')
    out.append('')
    p = os.path.join(V, 'DESIGN.md')
    s = open(p).read()
    if MARK in s:
        s = s[:s.index(MARK)]
    open(p, 'w').write(s.rstrip('\n') + '\n\n' + '\n'.join(out) + '\n')
    print('DESIGN.md regenerated:', len(out), 'lines')


if __name__ == '__main__':
    main()
