#!/usr/bin/env python3
"""Writes MANIFEST.json from tools/registry.json (claimed checks) — keeps it schema-valid."""
import json, os
HERE = os.path.dirname(os.path.abspath(__file__))
V = os.path.join(HERE, '..')
reg = json.load(open(os.path.join(HERE, 'registry.json')))
props = [json.loads(l) for l in open(os.path.join(V, 'properties.jsonl'))]
ids = [p['id'] for p in props]
checks = []
for pid in ids:
    if pid not in reg['claimed']:
        continue
    r = reg['claimed'][pid]
    checks.append({
        'property_id': pid,
        'quick_cmd': './check %s quick' % pid,
        'thorough_cmd': './check %s thorough' % pid,
        'evidence_file': 'evidence/%s.json' % pid,
        'replay_cmd_template': './check %s --replay {path}' % pid,
        'engine': 'lean-ofv',
        'level_claimed': {'category': 'proof', 'text': r['text'], 'design_ref': r.get('design_ref', 'DESIGN.md §4 ' + pid)},
        'level_note': r['note'],
        'technique': r.get('technique', 'Lean 4 theorems about an executable model + model/implementation correspondence check + Spec oracle search'),
    })
na = [{'property_id': pid, 'reason': reg['not_applicable'].get(pid, 'check not built yet in this session (see DESIGN.md §7 order of work); nothing is claimed for it')}
      for pid in ids if pid not in reg['claimed']]
m = {
    'version': 1,
    'setup_cmd': 'cd lean && /venv/bin/python ../tools/extract.py && lake build',
    'hooks': {
        'guard': 'OPENFERMION_VERIF',
        'enable': 'none needed: every observation point is public API (.terms, returned matrices / lists); the checks export OPENFERMION_VERIF=1 for the interface only',
        'baseline_off_cmd': 'cd /repo && /venv/bin/python -m pytest -ra -q -p no:cacheprovider --timeout=900 --continue-on-collection-errors',
        'source_commits': [],
        'add_only': True,
    },
    'engines': [{'name': 'lean-ofv', 'path': 'lean', 'serves_properties': [c['property_id'] for c in checks],
                 'kind_free_text': 'Lean 4 library OFV (Model, Spec, Proofs, Properties) + native driver ofv-driver; Python correspondence harness in harness/'}],
    'checks': checks,
    'notes': reg.get('notes', ''),
    'not_applicable': na,
}
json.dump(m, open(os.path.join(V, 'MANIFEST.json'), 'w'), indent=1)
print('claimed', [c['property_id'] for c in checks], 'not claimed', len(na))
