#!/venv/bin/python
"""Normalised-AST fingerprints of the Python functions the Lean Model mirrors.

A changed fingerprint is *not* a violation: it switches the property's check to
its thorough budgets for that run (the quick check is strongest exactly when
the code was edited) and is recorded in the evidence as source_drift.
`tools/fingerprint.py --update` rewrites fingerprints.json from the current tree.
"""
import ast
import hashlib
import json
import os
import sys

# ast.dump differs between Python versions: always fingerprint with the interpreter the checks run under
if __name__ == '__main__' and os.path.exists('/venv/bin/python') and \
        os.path.realpath(sys.executable) != os.path.realpath('/venv/bin/python') and not os.environ.get('OFV_FP_REEXEC'):
    os.environ['OFV_FP_REEXEC'] = '1'
    os.execv('/venv/bin/python', ['/venv/bin/python'] + sys.argv)

HERE = os.path.dirname(os.path.abspath(__file__))
REPO = os.environ.get('OFV_REPO', '/repo')
BASE = os.path.join(HERE, '..', 'fingerprints.json')
TARGETS = os.path.join(HERE, 'fingerprint_targets.json')


def _strip_doc(node):
    for n in ast.walk(node):
        if isinstance(n, (ast.FunctionDef, ast.ClassDef, ast.AsyncFunctionDef, ast.Module)):
            if n.body and isinstance(n.body[0], ast.Expr) and isinstance(getattr(n.body[0], 'value', None), ast.Constant) \
                    and isinstance(n.body[0].value.value, str):
                n.body = n.body[1:] or [ast.Pass()]
    return node


def file_hashes(relpath):
    """qualname -> hash for every function / class / module-level assignment; '*' = whole file"""
    path = os.path.join(REPO, relpath)
    try:
        tree = ast.parse(open(path).read())
    except Exception as e:
        return {'*': 'unparsable:' + type(e).__name__}
    out = {}

    def visit(node, prefix):
        for n in node.body:
            if isinstance(n, (ast.FunctionDef, ast.AsyncFunctionDef, ast.ClassDef)):
                q = prefix + n.name
                out[q] = hashlib.sha1(ast.dump(_strip_doc(n)).encode()).hexdigest()[:16]
                if isinstance(n, ast.ClassDef):
                    visit(n, q + '.')
    visit(tree, '')
    out['*'] = hashlib.sha1(ast.dump(_strip_doc(tree)).encode()).hexdigest()[:16]
    return out


def current(pid):
    targets = json.load(open(TARGETS)).get(pid, [])
    res = {}
    cache = {}
    for t in targets:
        rel, _, q = t.partition('::')
        q = q or '*'
        if rel not in cache:
            cache[rel] = file_hashes(rel)
        res[t] = cache[rel].get(q, 'missing')
    return res


def drift(pid):
    base = json.load(open(BASE)).get(pid, {}) if os.path.exists(BASE) else {}
    cur = current(pid)
    return sorted(t for t in cur if base.get(t) != cur[t])


if __name__ == '__main__':
    if '--update' in sys.argv:
        targets = json.load(open(TARGETS))
        json.dump({p: current(p) for p in sorted(targets)}, open(BASE, 'w'), indent=1, sort_keys=True)
        print('updated', BASE)
    else:
        for p in sorted(json.load(open(TARGETS))):
            print(p, drift(p))
