#!/usr/bin/env python3
"""tools/record_seed.py Cxx <out_dir> <name> [extra check ids...]
Confirms a seeded change (patch.diff, demo.py, meta.json produced by an independent sub-agent):
demo passes on the unchanged /repo, fails with the patch; runs ./check Cxx quick with the patch
applied (and any extra checks), reverts, and stores everything under seeded/<name>/."""
import json, os, shutil, subprocess, sys
pid, out, name = sys.argv[1:4]
extra = sys.argv[4:]
V = os.path.normpath(os.path.join(os.path.dirname(os.path.abspath(__file__)), '..'))


def sh(cmd, **kw):
    p = subprocess.run(cmd, shell=True, stdout=subprocess.PIPE, stderr=subprocess.STDOUT, **kw)
    return p.returncode, p.stdout.decode(errors='replace')


# A scratch worktree of /repo is used (builder agents run their own checks against /repo while this
# runs); the checks honour OFV_REPO, so this is the same machinery the registered commands run.
WT = '/tmp/seedrepo'


def demo(root):
    rc, o = sh('PYTHONPATH=%s/src /venv/bin/python -W ignore %s/demo.py' % (root, out), timeout=1800)
    return rc, o.strip().split('\n')[-1][:300]


sh('git -C /repo worktree remove --force %s' % WT)
rc, o = sh('git -C /repo worktree add --detach %s HEAD' % WT)
assert rc == 0, o
res = {'repo_head': sh('git -C /repo rev-parse --short HEAD')[1].strip(),
       'how': 'patch applied in a scratch worktree of /repo at HEAD; checks run with OFV_REPO pointing at it'}
res['demo_on_unchanged_repo'] = demo(WT)
rc, o = sh('git -C %s apply %s/patch.diff' % (WT, out))
assert rc == 0, o
try:
    res['files_changed'] = sh('git -C %s diff --stat' % WT)[1].strip().split('\n')
    res['demo_with_patch'] = demo(WT)
    checks = {}
    for c in [pid] + extra:
        rc, o = sh('cd %s && OFV_REPO=%s ./check %s quick' % (V, WT, c), timeout=3600)
        lines = [l for l in o.strip().split('\n') if l.startswith('VIOLATION') or l.startswith(c + ' ')]
        checks[c] = {'exit': rc, 'lines': lines[-3:]}
        rp = [l.split('replay=')[1].split()[0] for l in lines if l.startswith('VIOLATION')]
        if rp and os.path.exists(rp[0]):
            try:
                d = json.load(open(rp[0]))
                v = d.get('violation') or {}
                checks[c]['replay_what'] = str(v.get('what'))[:400]
                checks[c]['replay_input'] = json.dumps(v.get('input'))[:600]
                checks[c]['kind'] = d.get('kind')
            except Exception as e:
                checks[c]['replay_err'] = str(e)
    res['checks_with_patch'] = checks
finally:
    sh('git -C /repo worktree remove --force %s' % WT)
    # regenerate the extracted tables from the unchanged tree
    sh('cd %s && /venv/bin/python tools/extract.py && cd lean && lake build' % V)
dst = os.path.join(V, 'seeded', name)
os.makedirs(dst, exist_ok=True)
for f in ('patch.diff', 'demo.py'):
    shutil.copy(os.path.join(out, f), dst)
meta = json.load(open(os.path.join(out, 'meta.json')))
meta['confirmed_by_integrator'] = res
caught = any(c['exit'] == 1 and any(l.startswith('VIOLATION') for l in c['lines']) for c in res['checks_with_patch'].values())
meta['caught'] = caught
json.dump(meta, open(os.path.join(dst, 'meta.json'), 'w'), indent=1)
print(json.dumps(res, indent=1)[:3000])
print('CAUGHT' if caught else 'MISSED')
