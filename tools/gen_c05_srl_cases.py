#!/venv/bin/python
"""generate lean/OFV/Proofs/C05SrlCaseK.lean for the ten branches of _seeley_richard_love"""
import sys, os
AL='alphaSet i j n'
def L(*parts): return ' ++ '.join(parts)
U='uSet i j n'; UD='uDiffA i j n'; P0D='p0DiffA i j n'
p=lambda k:'p%dSet i j'%k
def P(k,S): return 'pad %d (%s)'%(k,S)
def D(a,b): return 'diff (%s) (%s)'%(a,b)
def Un(a,b): return 'union (%s) (%s)'%(a,b)
def pt(k,pp): return '(%s, %d)'%(k,pp)
def pts(*xs): return '['+', '.join(xs)+']'
cases={}
left=L(P(1,UD),P(2,AL),P(3,P0D))
cases[1]=dict(ops=[L(left,pts(pt('j',2),pt('i',1))),L(left,pts(pt('j',1),pt('i',2))),L(left,pts(pt('j',1),pt('i',1))),L(left,pts(pt('j',2),pt('i',2)))],
  co=('[coef, -coef, cplx0 (-coef), cplx0 (-coef)]','[cplx0 (-coef), cplx0 coef, -coef, -coef]'),
  pair=[(1,2),(2,1),(1,1),(2,2)],d={1:[1,1,1,1],0:[2,2,2,2]},alpha=True)
left=L(P(1,UD),P(2,AL)); r1=P(3,D(p(0),AL)); r2=P(3,D(p(2),AL))
cases[2]=dict(ops=[L(left,pts(pt('j',2),pt('i',1)),r1),L(left,pts(pt('j',1),pt('i',1)),r1),L(left,pts(pt('j',1),pt('i',2)),r2),L(left,pts(pt('j',2),pt('i',2)),r2)],
  co=('[coef, cplx0 (-coef), -coef, cplx0 (-coef)]','[cplx0 (-coef), -coef, cplx0 coef, -coef]'),
  pair=[(1,2),(1,1),(2,1),(2,2)],d={1:[1]*4,0:[2]*4},alpha=True)
left=P(1,U); r1=P(3,D(p(0),'[i]')); r2=P(3,D(p(2),'[i]'))
cases[3]=dict(ops=[L(left,pts(pt('j',2),pt('i',2)),r1),L(left,pts(pt('j',1),pt('i',2)),r1),L(left,pts(pt('j',1),pt('i',1)),r2),L(left,pts(pt('j',2),pt('i',1)),r2)],
  co=('[coef, cplx0 (-coef), coef, cplx0 coef]',None),pair=[(1,2),(1,1),(2,1),(2,2)],d={1:[1,1,3,3]},alpha=False)
left=L(P(1,UD),P(2,AL)); r1=P(3,D(p(0),AL)); r2=P(3,D(p(1),AL))
cases[4]=dict(ops=[L(left,pts(pt('j',1),pt('i',2)),r1),L(left,pts(pt('j',1),pt('i',1)),r1),L(left,pts(pt('j',2),pt('i',1)),r2),L(left,pts(pt('j',2),pt('i',2)),r2)],
  co=('[-coef, cplx0 (-coef), coef, cplx0 (-coef)]','[cplx0 coef, -coef, cplx0 (-coef), -coef]'),
  pair=[(2,1),(1,1),(1,2),(2,2)],d={1:[1]*4,0:[2]*4},alpha=True)
x1=D(U,'[j]'); x2=D(x1,AL); rp1='('+L(P(2,AL),P(3,D(p(0),AL)))+')'; rp2=P(3,Un(p(1),'[j]'))
cases[5]=dict(ops=[L(P(1,x2),pts(pt('i',2)),rp1),L(P(1,x2),pts(pt('i',1)),rp1),L(P(1,x1),pts(pt('i',2)),rp2),L(P(1,x1),pts(pt('i',1)),rp2)],
  co=('[-coef, cplx0 (-coef), cplx0 coef, -coef]',None),pair=[(2,1),(1,1),(2,2),(1,2)],d={1:[1,1,3,3]},alpha=True)
left=P(1,D(U,'[j]')); right=P(3,Un(p(1),'[j]'))
cases[6]=dict(ops=[L(left,pts(pt('i',1))),L(left,pts(pt('i',2))),L(left,pts(pt('i',2)),right),L(left,pts(pt('i',1)),right)],
  co=('[coef, cplx0 (-coef), cplx0 coef, -coef]',None),pair=[(2,1),(1,1),(2,2),(1,2)],d={1:[3,1,3,3]},alpha=False)
left=L(P(1,UD),P(2,AL)); r=[P(3,D(p(k),AL)) for k in range(4)]
cases[7]=dict(ops=[L(left,pts(pt('j',1),pt('i',1)),r[0]),L(left,pts(pt('j',2),pt('i',1)),r[1]),L(left,pts(pt('j',1),pt('i',2)),r[2]),L(left,pts(pt('j',2),pt('i',2)),r[3])],
  co=('[cplx0 (-coef), coef, -coef, cplx0 (-coef)]','[-coef, cplx0 (-coef), cplx0 coef, -coef]'),
  pair=[(1,1),(1,2),(2,1),(2,2)],d={1:[1]*4,0:[2]*4},alpha=True)
left=P(1,U); r=[P(3,D(p(k),'[i]')) for k in range(4)]
cases[8]=dict(ops=[L(left,pts(pt('j',1),pt('i',2)),r[0]),L(left,pts(pt('j',2),pt('i',2)),r[1]),L(left,pts(pt('j',1),pt('i',1)),r[2]),L(left,pts(pt('j',2),pt('i',1)),r[3])],
  co=('[cplx0 (-coef), coef, coef, cplx0 coef]',None),pair=[(1,1),(1,2),(2,1),(2,2)],d={1:[1,1,3,3]},alpha=False)
x1=D(U,'[j]'); x2=D(x1,AL); x3=D(Un(x1,'[i]'),AL)
rp1='('+L(P(3,D(p(2),AL)),P(2,AL))+')'; rp2='('+L(P(3,D(p(0),AL)),P(2,AL))+')'; rp3=P(3,Un(p(1),'[j]')); rp4=P(3,Un(p(3),'[j]'))
cases[9]=dict(ops=[L(P(1,x2),pts(pt('i',2)),rp1),L(P(1,x3),rp2),L(P(1,x1),pts(pt('i',1)),rp3),L(P(1,x1),pts(pt('i',2)),rp4)],
  co=('[-coef, cplx0 (-coef), -coef, cplx0 coef]',None),pair=[(2,1),(1,1),(1,2),(2,2)],d={1:[1,1,3,3]},alpha=True)
left=P(1,D(U,'[j]')); r1=P(3,D(p(0),'[i]')); r2=P(3,D(p(2),'[i]')); r3=P(3,p(1)); r4=P(3,p(3))
cases[10]=dict(ops=[L(left,pts(pt('i',2)),r1),L(left,pts(pt('i',1)),r2),L(left,pts(pt('j',3),pt('i',1)),r3),L(left,pts(pt('j',3),pt('i',2)),r4)],
  co=('[cplx0 (-coef), coef, -coef, cplx0 coef]',None),pair=[(1,1),(2,1),(1,2),(2,2)],d={1:[1,3,3,3]},alpha=False)

# which component of tagB_spec, and names of the Boolean hypotheses it yields
spec={1:('hne1, h1, h2',3),2:('hne1, h1, h2, h3',4),3:('hne1, h1, h2, h3',4),4:('hne1, h1, h2, h3, h4',5),5:('hne1, h1, h2, h3, h4',5),
 6:('hne1, h1, h2, h3, h4',5),7:('hne1, h1, h2, h3, h4',5),8:('hne1, h1, h2, h3, h4',5),9:('hne1, h1, h2, h3, h4',5),10:('hne1, h1, h2, h3, h4',5)}
def proj(k):
    # tagB_spec gives conj of 11 implications; component k (0..10)
    s='hT'+'.2'*k
    return s+('.1' if k<10 else '')
def sub(tag,lt):
    c=cases[tag]
    hs={1:'h1, h2',2:'h1, h2, h3',3:'h1, h2, h3'}.get(tag,'h1, h2, h3, h4')
    name='srl_case%d_%s'%(tag,'lt' if lt else 'gt')
    co=c['co'][0 if lt else 1]
    out=[]
    out.append('theorem %s (tol : Rat) (htol : tol * tol ≤ 1 / 4) (n i j : Nat) (hi : i < n) (hj : j < n) (c : GQ)'%name)
    out.append('    (htag : srlTag i j n = %d) (hord : %s) (s : Nat) (W : Nat → GQ) :'%(tag,'i < j' if lt else 'j < i'))
    out.append('    (((srlBody %d i j c n).1.zip (srlBody %d i j c n).2).map fun tc => tc.2 * φW (Spec.C05.enc .bk n s) W tc.1).sum'%(tag,tag))
    out.append('      = c * hopAct n i j s W := by')
    out.append('  have hT := tagB_spec _ _ _ _ _ %d (by rw [← srlTag_tagB]; exact htag)'%tag)
    out.append('  obtain ⟨%s⟩ := %s rfl'%(spec[tag][0].replace(', ',', '),proj(tag)))
    out.append('  have hij : i ≠ j := of_decide_eq_false hne1')
    out.append('  have hne2 : decide (j = i) = false := decide_eq_false (fun h => hij h.symm)')
    out.append('  obtain ⟨g1, g2, g3, g4, g5⟩ := %s i j n hord'%('lt_globals' if lt else 'gt_globals'))
    if c['alpha']:
        if lt:
            if tag==1:
                out.append('  have hnp : i ∉ paritySet j := fun h => by')
                out.append('    have := (parity_even i j 0 (of_decide_eq_true h1) h).1')
                out.append('    have e1 := of_decide_eq_true h1; have e2 := of_decide_eq_true h2; omega')
            else:
                out.append('  have hnp : i ∉ paritySet j := of_decide_eq_false h3')
            out.append('  obtain ⟨a, hα, ha1, ha2⟩ := alpha_single i j n hj hord hnp')
            out.append('  obtain ⟨a1, a2, a3, a4⟩ := alpha_atoms i j n a ha1 ha2')
            extra=', a1, a2, a3, a4'
        else:
            out.append('  have hα : alphaSet i j n = [] := alpha_nil_of_ge i j n (by omega)')
            extra=''
        ph='hα, '
    else:
        extra=''; ph=''
    allhs='%s, g1, g2, g3, g4'%hs
    out.append('  have hb : srlBody %d i j c n = ([%s],'%(tag,',\n      '.join(c['ops'])))
    out.append('      (let coef := c * ⟨mkRat 1 4, 0⟩; %s)) := by'%co)
    out.append('    simp only [srlBody%s]'%(', hord, if_true' if (lt and c['co'][1]) else (', show ¬ i < j by omega, if_false' if c['co'][1] else '')))
    out.append('  rw [hb, ← prod_sum tol htol n i j hi hj s W]')
    out.append('  simp only [List.zip_cons_cons, List.zip_nil_right, List.map_cons, List.map_nil, List.sum_cons, List.sum_nil]')
    for m in range(4):
        a,b=c['pair'][m]; d=c['d'][1 if lt else 0][m]
        out.append('  rw [same_action\' (%s) (T%d n i ++ T%d n j) %d'%(c['ops'][m],a,b,d))
        out.append('    (by bk_point [%s]) (by bk_point [%s]) (by bk_phase [%s%s%s])]'%(allhs,allhs,ph,allhs+', g5',extra))
    out.append('  generalize φW (Spec.C05.enc .bk n s) W (T1 n i ++ T1 n j) = f11')
    out.append('  generalize φW (Spec.C05.enc .bk n s) W (T1 n i ++ T2 n j) = f12')
    out.append('  generalize φW (Spec.C05.enc .bk n s) W (T2 n i ++ T1 n j) = f21')
    out.append('  generalize φW (Spec.C05.enc .bk n s) W (T2 n i ++ T2 n j) = f22')
    out.append('  gq_arith')
    return '\n'.join(out)+'\n'
def main(tag):
    c=cases[tag]
    src='/- `_seeley_richard_love`, case %d (generated by tools/gen_c05_srl_cases.py) -/\n'%tag
    src+='import OFV.Proofs.C05SrlCases\n\nset_option linter.unusedSimpArgs false\nset_option linter.unusedVariables false\n\nnamespace OFV\nnamespace BK\nopen Model Model.C05 Spec Sem\n\n'
    src+=sub(tag,True)+'\n'
    if c['co'][1]:
        src+=sub(tag,False)+'\n'
    src+='end BK\nend OFV\n'
    open(os.path.join(os.path.dirname(os.path.abspath(__file__)),'..','lean','OFV','Proofs','C05SrlCase%d.lean'%tag),'w').write(src)
if __name__=='__main__':
    for t in sys.argv[1:]: main(int(t))
